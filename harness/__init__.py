"""pDESy verification harness: builds pDESy models from spec configurations (cfg),
drives the real code, projects its state into the specification's variables and lets
TLC judge the recorded traces.  See /verif/DESIGN.md."""
import os
import sys

REPO = os.environ.get("PDESY_REPO", "/repo")
VERIF = os.path.dirname(os.path.dirname(os.path.abspath(__file__)))


def use_repo():
    """Make sure `import pDESy` resolves to the working tree under REPO (site-packages
    holds a stale installed copy) and that the verification hooks are switched on."""
    os.environ["PDESY_VERIF"] = "1"
    os.environ.setdefault("MPLBACKEND", "Agg")
    if sys.path[0] != REPO:
        sys.path.insert(0, REPO)
    import pDESy  # noqa

    root = os.path.realpath(REPO) + os.sep
    if not os.path.realpath(pDESy.__file__).startswith(root):
        sys.stderr.write(
            "MACHINERY: pDESy imported from %s, not from %s\n" % (pDESy.__file__, REPO)
        )
        sys.exit(2)
    from pDESy.model import base_project

    if not getattr(base_project, "_VERIF", False):
        sys.stderr.write("MACHINERY: verification hooks missing or PDESY_VERIF not set at import\n")
        sys.exit(2)
