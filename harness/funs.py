"""Pure-function cases: the four sorting functions (C11) and the reporting functions (C19)
are called on inputs enumerated by TLC; the observation is a run record without events."""
import warnings

from .build import Model, PRULE, RRULE, TRULE
from pDESy.model.base_priority_rule import (
    sort_facility_list,
    sort_task_list,
    sort_worker_list,
    sort_workplace_list,
)


def run_sort(spec):
    cfg = spec["cfg"]
    m = Model(cfg)
    fn, mode, t, p, vals = spec["fn"], spec["mode"], spec["t"], spec["p"], spec["vals"]
    name = "t%d" % t if t else None
    ret, out = "ok", []
    try:
        with warnings.catch_warnings():
            warnings.simplefilter("ignore")
            if fn == "worker":
                objs = list(m.workers)
                kw = {"name": name}
                if p:
                    kw["workplace_id"] = "".join(["P", "%d" % p])  # equal to, not identical with, the IDs in use
                res = sort_worker_list(list(objs), RRULE[mode], **kw)
            elif fn == "facility":
                objs = list(m.facs)
                res = sort_facility_list(list(objs), RRULE[mode], name=name)
            elif fn == "task":
                objs = list(m.tasks)
                Q = cfg["Q"]
                from pDESy.model.base_task import BaseTaskState
                for i, task in enumerate(objs):
                    task.est = vals["est"][i] / Q
                    task.lst = vals["lst"][i] / Q
                    task.remaining_work_amount = vals["rem"][i] / Q
                    task.state_record_list = [BaseTaskState.READY] * vals["rc"][i] + [BaseTaskState.WORKING]
                    task.parent_workflow = m.project.workflow
                m.project.workflow.critical_path_length = vals["cpl"] / Q
                res = sort_task_list(list(objs), TRULE[mode])
            elif fn == "workplace":
                objs = list(m.wps)
                from pDESy.model.base_facility import BaseFacilityState as _FS
                for i, wp in enumerate(objs):
                    wp.max_space_size = vals["avail"][i] / 2
                for k in vals.get("absent", []):
                    if k <= len(m.facs):
                        m.facs[k - 1].state = _FS.ABSENCE
                res = sort_workplace_list(list(objs), PRULE[mode], name=name)
            else:
                raise ValueError(fn)
        pos = {id(o): i for i, o in enumerate(objs, 1)}
        out = [pos.get(id(o), 0) for o in res]
    except Exception as e:
        ret = "exc:" + type(e).__name__
    return {"op": "sort", "fn": fn, "mode": mode, "t": t, "p": p, "vals": vals,
            "inp": list(range(1, len(objs) + 1)) if ret == "ok" else [], "out": out, "ret": ret,
            "opts": cfg["opts"], "args": {"cmp": 0}, "obs": {}, "ev": []}


# ---- reporting functions (C19) ---------------------------------------------------------------
import datetime

from pDESy.model.base_component import BaseComponent, BaseComponentState
from pDESy.model.base_facility import BaseFacility, BaseFacilityState
from pDESy.model.base_product import BaseProduct
from pDESy.model.base_project import BaseProject
from pDESy.model.base_task import BaseTask, BaseTaskState
from pDESy.model.base_team import BaseTeam
from pDESy.model.base_worker import BaseWorker, BaseWorkerState
from pDESy.model.base_workflow import BaseWorkflow
from pDESy.model.base_workplace import BaseWorkplace

_ENUM = {"task": BaseTaskState, "component": BaseComponentState, "worker": BaseWorkerState,
         "facility": BaseFacilityState}
_CLS = {"task": BaseTask, "component": BaseComponent, "worker": BaseWorker, "facility": BaseFacility}
_INIT = datetime.datetime(2020, 4, 1, 8, 0, 0)


def _obj(cls, log, name="x"):
    o = _CLS[cls](name)
    o.state_record_list = [_ENUM[cls][s] for s in log]
    return o


def _half(x):
    v = x * 2
    return int(v) if int(v) == v else -99999


def run_report(spec):
    fn = spec["fn"]
    rec = dict(spec)
    rec.pop("kind", None)
    rec.pop("id", None)
    rec.pop("cfg", None)
    rec.update(op="report", ret="ok", out=[], ev=[], args={"cmp": 0}, obs={},
               opts={"absL": [], "autoAbs": False, "rule": "TSLACK", "maxTime": 1})
    try:
        with warnings.catch_warnings():
            warnings.simplefilter("ignore")
            if fn == "gantt":
                o = _obj(spec["cls"], spec["log"])
                res = o.get_time_list_for_gannt_chart(finish_margin=spec["m2"] / 2)
                rec["out"] = [[[int(a), _half(b)] for a, b in lst] for lst in res]
            elif fn == "rows":
                o = _obj(spec["cls"], spec["log"])
                unit = datetime.timedelta(seconds=spec["unit"])
                kw = dict(finish_margin=spec["m2"] / 2, view_ready=spec["viewReady"])
                if spec["cls"] in ("task", "component"):
                    rows = o.create_data_for_gantt_plotly(_INIT, unit, **kw)
                elif spec["cls"] == "worker":
                    rows = BaseTeam("m", worker_list=[o]).create_data_for_gantt_plotly(
                        _INIT, unit, view_absence=True, **kw)
                else:
                    rows = BaseWorkplace("p", facility_list=[o]).create_data_for_gantt_plotly(
                        _INIT, unit, view_absence=True, **kw)
                if spec["cls"] in ("worker", "facility"):
                    rows = [dict(r, State=("FREE" if r["State"] == "READY" else r["State"])) for r in rows]
                out = []
                for r in rows:
                    st = datetime.datetime.strptime(r["Start"], "%Y-%m-%d %H:%M:%S")
                    fi = datetime.datetime.strptime(r["Finish"], "%Y-%m-%d %H:%M:%S")
                    out.append([r["State"], int((st - _INIT).total_seconds()), int((fi - _INIT).total_seconds())])
                rec["out"] = out
            elif fn == "extract":
                cls = spec["cls"]
                objs = [_obj(cls, lg, "o%d" % i) for i, lg in enumerate(spec["logs"], 1)]
                times = list(spec["times"])
                state = spec["state"]
                if cls == "task":
                    c = BaseWorkflow(objs)
                    f = {"NONE": c.extract_none_task_list, "READY": c.extract_ready_task_list,
                         "WORKING": c.extract_working_task_list, "FINISHED": c.extract_finished_task_list}[state]
                elif cls == "component":
                    c = BaseProduct(objs)
                    f = {"NONE": c.extract_none_component_list, "READY": c.extract_ready_component_list,
                         "WORKING": c.extract_working_component_list,
                         "FINISHED": c.extract_finished_component_list}[state]
                elif cls == "worker":
                    c = BaseTeam("m", worker_list=objs)
                    f = {"FREE": c.extract_free_worker_list, "WORKING": c.extract_working_worker_list}[state]
                else:
                    c = BaseWorkplace("p", facility_list=objs)
                    f = {"FREE": c.extract_free_facility_list, "WORKING": c.extract_working_facility_list}[state]
                res = f(times)
                pos = {id(o): i for i, o in enumerate(objs, 1)}
                rec["out"] = sorted(pos.get(id(o), 0) for o in res)
            elif fn == "lastdate":
                p = BaseProject(init_datetime=_INIT, unit_timedelta=datetime.timedelta(seconds=7))
                p.time = spec["time"]
                last = _INIT + datetime.timedelta(seconds=spec["last"])
                init = p.set_last_datetime(last, unit_timedelta=datetime.timedelta(seconds=spec["unit"]))
                ok = (p.init_datetime == init) and p.unit_timedelta == datetime.timedelta(seconds=spec["unit"])
                rec["out"] = int((init - _INIT).total_seconds()) if ok else -99999999
            else:
                raise ValueError(fn)
    except Exception as e:
        rec["ret"] = "exc:" + type(e).__name__
    return rec
