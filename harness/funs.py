"""Pure-function cases: the four sorting functions (C11) and the reporting functions (C19)
are called on inputs enumerated by TLC; the observation is a run record without events."""
import warnings

from .build import Model, PRULE, RRULE, TRULE
from pDESy.model.base_priority_rule import (
    sort_facility_list,
    sort_task_list,
    sort_worker_list,
    sort_workplace_list,
)


def run_sort(spec):
    cfg = spec["cfg"]
    m = Model(cfg)
    fn, mode, t, p, vals = spec["fn"], spec["mode"], spec["t"], spec["p"], spec["vals"]
    name = "t%d" % t if t else None
    ret, out = "ok", []
    try:
        with warnings.catch_warnings():
            warnings.simplefilter("ignore")
            if fn == "worker":
                objs = list(m.workers)
                kw = {"name": name}
                if p:
                    kw["workplace_id"] = "".join(["P", "%d" % p])  # equal to, not identical with, the IDs in use
                res = sort_worker_list(list(objs), RRULE[mode], **kw)
            elif fn == "facility":
                objs = list(m.facs)
                res = sort_facility_list(list(objs), RRULE[mode], name=name)
            elif fn == "task":
                objs = list(m.tasks)
                Q = cfg["Q"]
                from pDESy.model.base_task import BaseTaskState
                for i, task in enumerate(objs):
                    task.est = vals["est"][i] / Q
                    task.lst = vals["lst"][i] / Q
                    task.remaining_work_amount = vals["rem"][i] / Q
                    task.state_record_list = [BaseTaskState.READY] * vals["rc"][i] + [BaseTaskState.WORKING]
                    task.parent_workflow = m.project.workflow
                m.project.workflow.critical_path_length = vals["cpl"] / Q
                res = sort_task_list(list(objs), TRULE[mode])
            elif fn == "workplace":
                objs = list(m.wps)
                for i, wp in enumerate(objs):
                    wp.max_space_size = vals["avail"][i] / 2
                res = sort_workplace_list(list(objs), PRULE[mode], name=name)
            else:
                raise ValueError(fn)
        pos = {id(o): i for i, o in enumerate(objs, 1)}
        out = [pos.get(id(o), 0) for o in res]
    except Exception as e:
        ret = "exc:" + type(e).__name__
    return {"op": "sort", "fn": fn, "mode": mode, "t": t, "p": p, "vals": vals,
            "inp": list(range(1, len(objs) + 1)) if ret == "ok" else [], "out": out, "ret": ret,
            "opts": cfg["opts"], "args": {"cmp": 0}, "obs": {}, "ev": []}
