"""Per-property plans: which cases are driven, which model-checking instances are run,
what makes a case non-trivial for the property."""
import json

from . import families

ASSUMPTIONS = [
    "TLC 1.8 evaluates the TLA+ operators of /verif/spec correctly",
    "the projection harness/observe.py reads the live pDESy attributes faithfully (self-tested by tampering)",
    "deterministic skills (sd 0), unit_time 1, task_performed_mode multi-workers, exactly representable numbers",
    "CPython iterates small sets of objects with distinct small integer hashes in hash order (harness RankedTask)",
]


def _sim(cfgs):
    return [{"kind": "simulate", "cfg": c} for c in cfgs]


def _fam(name, tier, n_quick, n_thorough, seed):
    t = 1 if tier == "quick" else 2
    cfgs = families.export_family(name, t)
    return families.sample(cfgs, n_quick if tier == "quick" else n_thorough, seed)


def _rand(tier, seed, n_quick, n_thorough, prefix, **kw):
    return families.random_cfgs(seed * 7919 + 13, n_quick if tier == "quick" else n_thorough, prefix, **kw)


def step_cases(fams, rand_kw=None, nq=250, nt=2500, rq=200, rt=3000):
    def cases(tier, seed):
        out = []
        for f in fams:
            out += _fam(f, tier, nq, nt, seed)
        if rand_kw is not None:
            out += _rand(tier, seed, rq, rt, "R", **rand_kw)
        return _sim(out)
    return cases


def l1(*insts):
    def f(tier):
        return [dict(i) for i in insts if tier == "thorough" or not i.get("thorough_only")]
    return f


def sort_cases(nq=4000, nt=None):
    def cases(tier, seed):
        t = 1 if tier == "quick" else 2
        cs = families.sample(families.export_family("sort", t, module="Gen_Sort"), nq if tier == "quick" else nt, seed)
        return [dict(c, kind="sort") for c in cs]
    return cases


def both(*fs):
    def cases(tier, seed):
        out = []
        for f in fs:
            out += f(tier, seed)
        return out
    return cases


NOFAC = dict(facilities=False, components=False)
FULL = dict()

PLANS = {
    "C01": dict(cases=step_cases(["deps", "abs"], NOFAC),
                l1=l1(dict(family="deps", invariants=["Inv_C01"], properties=["Prop_C01"]),
                      dict(family="abs", invariants=["Inv_C01"], properties=["Prop_C01"]))),
    "C02": dict(cases=step_cases(["deps", "alloc", "abs"], FULL),
                l1=l1(dict(family="deps", invariants=["Inv_C02"], properties=["Prop_C02"]),
                      dict(family="alloc", invariants=["Inv_C02"], properties=["Prop_C02"]))),
    "C03": dict(cases=step_cases(["alloc", "place"], FULL),
                l1=l1(dict(family="alloc", invariants=["Inv_C03"], properties=["Prop_C03"]),
                      dict(family="place", invariants=["Inv_C03"], properties=["Prop_C03"]))),
    "C04": dict(cases=step_cases(["alloc", "place"], FULL),
                l1=l1(dict(family="alloc", invariants=["Inv_C04"], properties=["Prop_C04"]),
                      dict(family="place", invariants=["Inv_C04"], properties=["Prop_C04"]))),
    "C05": dict(cases=step_cases(["deps", "abs", "place"], FULL),
                l1=l1(dict(family="deps", invariants=["Inv_C05"], properties=["Live_C05"]),
                      dict(family="abs", invariants=["Inv_C05"]))),
    "C06": dict(cases=step_cases(["deps", "alloc"], FULL),
                l1=l1(dict(family="deps", invariants=["Inv_C06"], properties=["Prop_C06"]),
                      dict(family="alloc", invariants=["Inv_C06"], properties=["Prop_C06"]))),
    "C07": dict(cases=step_cases(["alloc", "abs"], FULL),
                l1=l1(dict(family="alloc", invariants=["Inv_C07"]),
                      dict(family="abs", invariants=["Inv_C07"]))),
    "C08": dict(cases=step_cases(["deps", "place"], FULL),
                l1=l1(dict(family="abs", invariants=["Inv_C08"]))),
    "C10": dict(cases=step_cases(["abs"], FULL),
                l1=l1(dict(family="abs", invariants=["Inv_C10"], properties=["Prop_C10"]))),
    "C11": dict(cases=both(sort_cases(), step_cases(["alloc"], FULL, nq=400, rq=300)),
                l1=l1(dict(family="alloc", properties=["Prop_C11"]))),
    "C12": dict(cases=step_cases(["pert"], dict(facilities=False, components=False, kinds=["FS"])),
                l1=l1(dict(family="pert", invariants=["Inv_C12"]))),
    "C13": dict(cases=step_cases(["place"], FULL),
                l1=l1(dict(family="placeflat", invariants=["Inv_C13"], properties=["Prop_C13"]))),
    "C14": dict(cases=step_cases(["place", "deps"], FULL),
                l1=l1(dict(family="place", invariants=["Inv_C14"], properties=["Prop_C14"]))),
}


# properties that have a plan but are not claimed in MANIFEST.json yet
UNREGISTERED = set()


# ---- evidence helpers -------------------------------------------------------------------
def _sig(case):
    """A case is counted once per distinct behaviour: the sequence of task-state vectors."""
    r = case["runs"][0]
    if r.get("op") == "sort":
        return json.dumps([r["fn"], r["mode"], r["out"], r["vals"], case["cfg"]["workers"], case["cfg"]["facs"]])
    return json.dumps([e["st"]["ts"] for e in r.get("ev", []) if e["ph"] == "recorded"]
                      + [r.get("ret")]) + json.dumps(case["cfg"]["deps"])


def nontrivial(prop, recs):
    """Distinct non-trivial cases: at least two simulated steps and at least one task that
    passes through WORKING; distinct by the recorded sequence of task-state vectors."""
    sigs = set()
    for c in recs:
        r = c["runs"][0]
        if r.get("op") == "sort":
            if len(set(r["out"])) >= 2 and r["out"] != r["inp"]:
                sigs.add(_sig(c))
            continue
        steps = [e for e in r.get("ev", []) if e["ph"] == "recorded"]
        if len(steps) >= 2 and any("WORKING" in e["st"]["ts"] for e in steps):
            sigs.add(_sig(c))
    return {"count": len(sigs),
            "rule": "cases = models enumerated by TLC from spec/PdesyFamilies.tla (sampled by VERIF_SEED in the "
                    "quick tier) plus seeded random larger models, each executed on the real code; non-trivial = "
                    "at least two simulated steps with some task WORKING; distinct = different recorded "
                    "sequence of task-state vectors or dependency list"}


def samples(prop, recs, n=2):
    out = []
    for c in recs[:n]:
        r = c["runs"][0]
        if r.get("op") == "sort":
            out.append({k: r[k] for k in ("fn", "mode", "t", "p", "vals", "inp", "out", "ret")})
            continue
        out.append({"cfg": c["cfg"], "ret": r.get("ret"),
                    "task_state_log": r["final"]["lg"]["ts"], "events": len(r.get("ev", []))})
    return out
