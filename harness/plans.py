"""Per-property plans: which cases are driven, which model-checking instances are run,
what makes a case non-trivial for the property."""
import json

from . import families

ASSUMPTIONS = [
    "TLC 1.8 evaluates the TLA+ operators of /verif/spec correctly",
    "the projection harness/observe.py reads the live pDESy attributes faithfully (self-tested by tampering)",
    "deterministic skills (sd 0), unit_time 1, task_performed_mode multi-workers, exactly representable numbers",
    "CPython iterates small sets of objects with distinct small integer hashes in hash order (harness RankedTask)",
]


def _sim(cfgs):
    return [{"kind": "simulate", "cfg": c} for c in cfgs]


def _fam(name, tier, n_quick, n_thorough, seed):
    t = 1 if tier == "quick" else 2
    cfgs = families.export_family(name, t)
    return families.sample(cfgs, n_quick if tier == "quick" else n_thorough, seed)


def _rand(tier, seed, n_quick, n_thorough, prefix, **kw):
    return families.random_cfgs(seed * 7919 + 13, n_quick if tier == "quick" else n_thorough, prefix, **kw)


def step_cases(fams, rand_kw=None, nq=250, nt=2500, rq=200, rt=3000, full=True):
    """Per family: a seeded sample is run with the phase hook recording every event (state and step
    clauses, per-phase conformance); the WHOLE family is run without events (log clauses on the
    final logs, whole-run conformance final = SimulateF(cfg))."""
    def cases(tier, seed):
        out = []
        for f in fams:
            out += _sim(_fam(f, tier, nq, nt, seed))
            if full:
                t = 1 if tier == "quick" else 2
                allc = families.export_family(f, t)
                if tier != "quick" and len(allc) > 40000:
                    allc = families.sample(allc, 40000, seed + 1)
                out += [{"kind": "simulate", "light": True, "cfg": dict(c, id=c["id"] + "~")} for c in allc]
        if rand_kw is not None:
            out += _sim(_rand(tier, seed, rq, rt, "R", **rand_kw))
        return out
    return cases


def unit2_cases(nq=120, nt=1200):
    """simulate(unit_time=2): time advances by 2 per step, so row k of the logs belongs to time
    2(k-1); absence lists (of the project and of resources) hold times - odd ones are never met."""
    def cases(tier, seed):
        out = []
        for c in _rand(tier, seed + 2, nq, nt, "U", absences=False) + _rand(tier, seed + 3, nq, nt, "V", absences=True):
            c["opts"]["unit"] = 2
            c["opts"]["maxTime"] = 40
            out.append(c)
        return _sim(out)
    return cases


def l1(*insts):
    def f(tier, seed=0):
        out = []
        for i in insts:
            if tier != "thorough" and i.get("thorough_only"):
                continue
            i = dict(i)
            if "rand" in i:
                # the seeded random models (the same generator the code is run on) as an L1 family
                kw = dict(i.pop("rand"))
                i["cfgs"] = _rand(tier, seed, 150, 1500, "R", **kw)
                i["family"] = "random-file"
            out.append(i)
        return out
    return f


FLAT = dict(nested=False, multi_task_comp=False)


def sort_cases(nq=4000, nt=None):
    def cases(tier, seed):
        t = 1 if tier == "quick" else 2
        cs = families.sample(families.export_family("sort", t, module="Gen_Sort"), nq if tier == "quick" else nt, seed)
        return [dict(c, kind="sort") for c in cs]
    return cases


def report_cases(nq=6000, nt=None):
    def cases(tier, seed):
        t = 1 if tier == "quick" else 2
        cs = families.sample(families.export_family("report", t, module="Gen_Report"), nq if tier == "quick" else nt, seed)
        return [dict(c, kind="report", cfg={"id": c["id"]}) for c in cs]
    return cases


def both(*fs):
    def cases(tier, seed):
        out = []
        for f in fs:
            out += f(tier, seed)
        return out
    return cases


NOFAC = dict(facilities=False, components=False)
FULL = dict()

PLANS = {
    "C01": dict(cases=step_cases(["deps", "abs", "deps2", "edge", "half"], NOFAC),
                l1=l1(dict(family="rand", rand=NOFAC, invariants=['Inv_C01'], properties=['Prop_C01'], tier=1),
                      dict(family="deps", invariants=["Inv_C01"], properties=["Prop_C01"]),
                      dict(family="abs", invariants=["Inv_C01"], properties=["Prop_C01"]),
                      dict(family="deps2", invariants=["Inv_C01"], properties=["Prop_C01"]))),
    "C02": dict(cases=both(unit2_cases(), step_cases(["deps", "alloc", "abs", "pairs", "edge", "half"], FULL)),
                l1=l1(dict(family="pairs", invariants=["Inv_C02"], properties=["Prop_C02"]),
                      dict(family="rand", rand=FLAT, invariants=['Inv_C02'], properties=['Prop_C02'], tier=1),
                      dict(family="deps", invariants=["Inv_C02"], properties=["Prop_C02"]),
                      dict(family="alloc", invariants=["Inv_C02"], properties=["Prop_C02"]))),
    "C03": dict(cases=both(unit2_cases(), step_cases(["alloc", "place", "conveyor", "pairs", "edge", "mainwp"], FULL)),
                l1=l1(dict(family="pairs", invariants=["Inv_C03"], properties=["Prop_C03"]),
                      dict(family="rand", rand=FLAT, invariants=['Inv_C03'], properties=['Prop_C03'], tier=1),
                      dict(family="alloc", invariants=["Inv_C03"], properties=["Prop_C03"]),
                      dict(family="place", invariants=["Inv_C03"], properties=["Prop_C03"]))),
    "C04": dict(cases=step_cases(["alloc", "place", "conveyor", "pairs", "fixed", "mainwp"], FULL),
                l1=l1(dict(family="pairs", invariants=["Inv_C04"], properties=["Prop_C04"]),
                      dict(family="rand", rand=FLAT, invariants=['Inv_C04'], properties=['Prop_C04'], tier=1),
                      dict(family="alloc", invariants=["Inv_C04"], properties=["Prop_C04"]),
                      dict(family="place", invariants=["Inv_C04"], properties=["Prop_C04"]))),
    "C05": dict(cases=both(step_cases(["deps", "abs", "place", "edge", "half", "mainwp", "nest2"], FULL),
                           lambda tier, seed: _sim(families.sample(families.export_family("deps4", 1), 300 if tier == "quick" else 5000, seed))),
                l1=l1(dict(family="deps", invariants=["Inv_C05"], properties=["Live_C05"]),
                      dict(family="abs", invariants=["Inv_C05"]))),
    "C06": dict(cases=step_cases(["deps", "alloc", "pairs", "deps2", "edge", "fixed", "mainwp", "half", "autocomp", "place", "conveyor", "nest2"], FULL),
                l1=l1(dict(family="rand", rand=FLAT, invariants=['Inv_C06'], properties=['Prop_C06'], tier=1),
                      dict(family="deps", invariants=["Inv_C06"], properties=["Prop_C06"]),
                      dict(family="alloc", invariants=["Inv_C06"], properties=["Prop_C06"]))),
    "C07": dict(cases=both(unit2_cases(), step_cases(["alloc", "abs", "edge"], FULL)),
                l1=l1(dict(family="rand", rand=FLAT, invariants=['Inv_C07'], properties=[], tier=1),
                      dict(family="alloc", invariants=["Inv_C07"]),
                      dict(family="abs", invariants=["Inv_C07"]))),
    "C08": dict(cases=step_cases(["deps", "place", "dag", "watch", "edge", "half"], FULL),
                l1=l1(dict(family="abs", invariants=["Inv_C08"]))),
    "C10": dict(cases=step_cases(["abs", "pairs", "autocomp"], FULL),
                l1=l1(dict(family="abs", invariants=["Inv_C10", "Inv_C10H"], properties=["Prop_C10"]))),
    "C11": dict(cases=both(sort_cases(), step_cases(["alloc", "edge", "pairs", "fixed", "mainwp"], FULL, nq=400, rq=300)),
                l1=l1(dict(family="alloc", properties=["Prop_C11"]), dict(family="pairs", properties=["Prop_C11"]))),
    "C12": dict(cases=step_cases(["pert"], dict(facilities=False, components=False, kinds=["FS"])),
                l1=l1(dict(family="pert", invariants=["Inv_C12"]))),
    "C13": dict(cases=step_cases(["place", "conveyor", "mainwp", "autocomp", "nest2"], FULL),
                l1=l1(dict(family="placeflat", invariants=["Inv_C13"], properties=["Prop_C13"]),
                      dict(family="conveyor", invariants=["Inv_C13"], properties=["Prop_C13"]))),
    "C14": dict(cases=step_cases(["place", "deps", "dag", "watch", "autocomp"], FULL),
                l1=l1(dict(family="rand", rand=FLAT, invariants=['Inv_C14'], properties=['Prop_C14'], tier=1),
                      dict(family="place", invariants=["Inv_C14"], properties=["Prop_C14"]))),
}


# properties that have a plan but are not claimed in MANIFEST.json yet
UNREGISTERED = set()


# ---- evidence helpers -------------------------------------------------------------------
def _sig(case):
    """A case is counted once per distinct behaviour: the sequence of task-state vectors."""
    r = case["runs"][0]
    if case.get("spec", {}).get("kind") == "history":
        return json.dumps([[x["op"], x["ret"], x["args"].get("L"), x["args"].get("abortAt"),
                            x["final"]["lg"]["time"], x["final"]["lg"]["ts"]] for x in case["runs"]])
    if r.get("op") == "subconfig":
        return json.dumps([r["obs"], case["cfg"]["deps"], case["cfg"]["opts"]])
    if r.get("op") == "sort":
        return json.dumps([r["fn"], r["mode"], r["out"], r["vals"], case["cfg"]["workers"], case["cfg"]["facs"]])
    if r.get("op") == "report":
        return json.dumps([r.get(k) for k in ("fn", "cls", "log", "logs", "m2", "unit", "times", "state", "time", "last")])
    return json.dumps([e["st"]["ts"] for e in r.get("ev", []) if e["ph"] == "recorded"]
                      + [r.get("ret")]) + json.dumps(case["cfg"]["deps"])


def nontrivial(prop, recs):
    """Distinct non-trivial cases: at least two simulated steps and at least one task that
    passes through WORKING; distinct by the recorded sequence of task-state vectors."""
    sigs = set()
    for c in recs:
        r = c["runs"][0]
        if c.get("spec", {}).get("kind") == "history":
            # non-trivial history: at least two operations act on a result with >= 2 simulated steps
            if sum(1 for x in c["runs"] if x["op"] not in ("rebuild", "snapshot") and x["final"]["lg"]["time"] >= 2) >= 2:
                sigs.add(_sig(c))
            continue
        if r.get("op") == "sort":
            if len(set(r["out"])) >= 2 and r["out"] != r["inp"]:
                sigs.add(_sig(c))
            continue
        if r.get("op") == "subconfig":
            if len(c["runs"]) > 1 and r["obs"]["D"] > 0:
                sigs.add(_sig(c))
            continue
        if r.get("op") == "report":
            if r["out"] not in ([], [[], []], [[], [], []]):
                sigs.add(_sig(c))
            continue
        steps = [e for e in r.get("ev", []) if e["ph"] == "recorded"]
        if len(steps) >= 2 and any("WORKING" in e["st"]["ts"] for e in steps):
            sigs.add(_sig(c))
    return {"count": len(sigs),
            "rule": "cases = models / function inputs / operation histories enumerated by TLC from "
                    "spec/PdesyFamilies.tla (sampled by VERIF_SEED in the quick tier) plus seeded random larger "
                    "models, each executed on the real code; non-trivial = simulate case with at least two "
                    "simulated steps and some task WORKING / history with at least two operations on a result of "
                    ">= 2 steps / sort call that reorders >= 2 distinct elements / report call with a non-empty "
                    "result / sub-project configured with positive duration; distinct = different recorded "
                    "behaviour (sequence of task-state vectors, operation results) or input"}


def samples(prop, recs, n=2):
    out = []
    for c in recs[:n]:
        r = c["runs"][0]
        if c.get("spec", {}).get("kind") == "history":
            out.append({"cfg_id": c["cfg"]["id"], "deps": c["cfg"]["deps"],
                        "history": [{"op": x["op"], "args": {k: v for k, v in x["args"].items() if k != "plainTasks"},
                                     "ret": x["ret"], "time_after": x["final"]["lg"]["time"],
                                     "status_after": x["final"]["lg"]["status"]} for x in c["runs"]]})
            continue
        if r.get("op") == "sort":
            out.append({k: r[k] for k in ("fn", "mode", "t", "p", "vals", "inp", "out", "ret")})
            continue
        if r.get("op") == "report":
            out.append({k: v for k, v in r.items() if k not in ("ev", "args", "obs", "opts")})
            continue
        if r.get("op") == "subconfig":
            out.append({"subconfig": r["obs"], "parent_deps": c["cfg"]["deps"],
                        "parent_task_state_log": c["runs"][-1]["final"]["lg"]["ts"]})
            continue
        out.append({"cfg": c["cfg"], "ret": r.get("ret"),
                    "task_state_log": r["final"]["lg"]["ts"], "events": len(r.get("ev", []))})
    return out


# =========================================================================================
# history cases (C08 C09 C10 C15 C16 C17 C18)
# =========================================================================================
import itertools
import random as _random

PHASES = ["init", "finished", "unplaced", "ready", "updated", "presence", "alloc_task", "allocated",
          "started", "cost", "performed", "recorded", "returned"]


def _hist(cfg, tag, ops, plain=False):
    c = dict(cfg)
    c["id"] = cfg["id"] + "#" + tag
    return {"kind": "history", "cfg": c, "ops": ops, "plain": plain}


def _cmp(op, ref, prop, what="all"):
    op = dict(op)
    op.update(cmp=ref, cmpProp=prop, cmpWhat=what)
    return op


def _saved_format_only(cfg):
    """Models whose behaviour-relevant settings are all part of the JSON format.  Since the fix
    of D11 (rules, main workplace, conveyor links are saved) that is every model of the families."""
    return True


def _flat_single(cfg):
    n = {}
    for t in cfg["tasks"]:
        if t["comp"]:
            n[t["comp"]] = n.get(t["comp"], 0) + 1
    return all(v <= 1 for v in n.values()) and not any(c["children"] for c in cfg["comps"])


def _pool(tier, seed, fams, nq, nt, rand_kw=None, rq=60, rt=600, prefix="H"):
    out = []
    for f in fams:
        out += _fam(f, tier, nq, nt, seed)
    if rand_kw is not None:
        out += _rand(tier, seed, rq, rt, prefix, **rand_kw)
    return out


def c09_cases(tier, seed):
    rng = _random.Random(seed + 9)
    out = []
    # (with components too: their logs are part of "the same logs")
    for cfg in (_pool(tier, seed, ["deps", "abs", "due"], 120, 1500, dict(components=False, facilities=False), 80, 800)
                + _pool(tier, seed, ["placeflat", "autocomp", "watch"], 40, 400, None)):
        n = len(cfg["tasks"])
        perms = list(itertools.permutations(range(n)))
        if len(perms) > 6:
            perms = rng.sample(perms, 6 if tier == "quick" else 24)
        ops = [{"op": "simulate"}]
        for p in perms:
            ops += [{"op": "rebuild"}, _cmp({"op": "simulate", "ranks": list(p), "light": True}, 1, "C09", "lg")]
        ops += [_cmp({"op": "simulate", "light": True}, 1, "C09", "lg")]          # simply call simulate again
        # a run with other options in between must leave nothing behind either
        ops += [{"op": "simulate", "light": True, "opts": {"absL": [1, 2], "rule": "FIFO", "autoAbs": True, "maxTime": 7}},
                _cmp({"op": "simulate", "light": True, "defaults": True}, 1, "C09", "lg")]
        ops += [{"op": "backward", "light": True}, _cmp({"op": "simulate", "light": True}, 1, "C09", "lg")]
        # ... nor may a backward run with helper tasks for due times, reversed or not
        ops += [{"op": "backward", "due": True, "reverse": rng.random() < 0.5, "light": True},
                _cmp({"op": "simulate", "light": True}, 1, "C09", "lg")]
        ops += [{"op": "rebuild", "plain": True}, _cmp({"op": "simulate", "light": True}, 1, "C09", "lg")]
        out.append(_hist(cfg, "c09", ops))
        if not cfg["opts"]["absL"] and len(out) % 4 == 0:
            # no hidden state: editing the result of one run must not change a later run of a
            # freshly built project (calls that leave absence_time_list at its default)
            ops = [{"op": "simulate", "light": True, "defaultAbs": True},
                   {"op": "insert_absence", "L": [1, 2]}, {"op": "rebuild"},
                   _cmp({"op": "simulate", "light": True, "defaultAbs": True}, 1, "C09", "lg")]
            out.append(_hist(cfg, "c09leak", ops))
    return out


def c09_order_search(tier, seed):
    """Larger models (4-5 tasks) with mixed dependency kinds under the default TSLACK rule: many
    models, a sample of visiting orders each (ties in the PERT passes are what can make the
    order matter)."""
    rng = _random.Random(seed + 99)
    out = []
    cfgs = families.random_cfgs(seed * 31 + 4242, 1500 if tier == "quick" else 12000, "S", components=False,
                                facilities=False, absences=False, rules=False, autos=False)
    for cfg in cfgs:
        n = len(cfg["tasks"])
        if n < 4 or all(d[2] == "FS" for d in cfg["deps"]):
            continue
        perms = rng.sample(list(itertools.permutations(range(n))), 8)
        ops = [{"op": "simulate", "light": True}]
        for p in perms:
            ops += [{"op": "rebuild"}, _cmp({"op": "simulate", "ranks": list(p), "light": True}, 1, "C09", "lg")]
        # and with plain BaseTask objects, whose hashes are memory addresses
        for _ in range(2):
            ops += [{"op": "rebuild", "plain": True}, _cmp({"op": "simulate", "light": True}, 1, "C09", "lg")]
        out.append(_hist(cfg, "c09order", ops))
    return out


def c15_cases(tier, seed):
    out = []
    pool = _pool(tier, seed, ["deps", "alloc", "placeflat", "pairs", "conveyor", "abs"], 25, 300, dict(), 60, 600)
    for cfg in pool:
        # pause steps up to the model's own max_time (a pause beyond it would simulate more steps
        # than the uninterrupted run is allowed to)
        ks = range(0, min(9 if tier == "quick" else 14, cfg["opts"]["maxTime"] + 1))
        ops = [{"op": "simulate", "light": True}]
        for k in ks:
            ops += [{"op": "rebuild"}, {"op": "simulate", "opts": {"maxTime": k}, "light": True},
                    _cmp({"op": "simulate", "initState": False, "initLog": False, "light": True}, 1, "C15", "all")]
        out.append(_hist(cfg, "c15", ops))
        if _saved_format_only(cfg):
            ops = [{"op": "simulate", "light": True}]
            for k in ks:
                ops += [{"op": "rebuild", "plain": True}, {"op": "simulate", "opts": {"maxTime": k}, "light": True},
                        {"op": "saveload"},
                        _cmp({"op": "simulate", "initState": False, "initLog": False, "light": True}, 1, "C15", "lg")]
            out.append(_hist(cfg, "c15json", ops, plain=True))
    return out


def c10_resume_cases(tier, seed):
    """Absence steps on both sides of a pause: the continued run (recorded with events) must
    treat the remaining absence steps as dead time too."""
    rng = _random.Random(seed + 1010)
    out = []
    for cfg in _pool(tier, seed, ["abs", "pairs"], 150, 1500, dict(components=False, facilities=False), 60, 600, prefix="P"):
        L = cfg["opts"]["absL"] or sorted(set(rng.sample(range(0, 7), rng.randint(2, 3))))
        ops = []
        for k in rng.sample(range(1, 7), 2):
            ops += [{"op": "rebuild"}, {"op": "simulate", "opts": {"maxTime": k, "absL": L}, "light": True},
                    {"op": "simulate", "opts": {"absL": L}, "initState": False, "initLog": False}]
        out.append(_hist(cfg, "c10resume", ops))
    return out


def c17_cases(tier, seed):
    rng = _random.Random(seed + 17)
    out = []
    pool = _pool(tier, seed, ["deps", "placeflat", "conveyor", "abs", "pairs", "due", "half"], 25, 300, dict(nested=False, multi_task_comp=False), 60, 600)
    for cfg in pool:
        ops = [{"op": "simulate", "light": True}]
        combos = [(d, r) for d in (False, True) for r in (False, True)]
        for d, r in combos:
            ops += [{"op": "rebuild"}, {"op": "backward", "due": d, "reverse": r},
                    _cmp({"op": "simulate", "light": True}, 1, "C17")]
        # a second (and third) backward run on the same project, also after an aborted one
        d, r = rng.choice(combos)
        d2, r2 = rng.choice(combos)
        ops += [{"op": "rebuild"}, {"op": "backward", "due": d, "reverse": r, "light": True},
                {"op": "backward", "due": d2, "reverse": r2},
                {"op": "backward", "due": d, "reverse": True, "abortAt": ["performed", 1], "light": True},
                {"op": "backward", "due": d2, "reverse": r2, "light": True},
                _cmp({"op": "simulate", "light": True}, 1, "C17", "lg")]
        faults = [(ph, t) for ph in PHASES for t in range(0, 4)]
        faults = rng.sample(faults, 6) if tier == "quick" else faults
        for ph, t in faults:
            d, r = rng.choice(combos)
            ops += [{"op": "rebuild"}, {"op": "backward", "due": d, "reverse": r, "abortAt": [ph, t], "light": True},
                    _cmp({"op": "simulate", "light": True}, 1, "C17")]
        out.append(_hist(cfg, "c17", ops))
    return out


def _with_subtask(tier, seed, n):
    """Parent models of the sub family with the sub-project task given a fixed length."""
    out = []
    for c in _fam("sub", tier, n, n * 5, seed):
        c = json.loads(json.dumps(c))
        c["tasks"][1]["work"] = 2 * c["Q"]
        c["tasks"][1]["rate"] = c["Q"]
        c["id"] += "s"
        out.append(c)
    return out


def c18_cases(tier, seed):
    rng = _random.Random(seed + 18)
    out = []
    pool = _pool(tier, seed, ["abs", "placeflat", "alloc", "dag", "pairs"], 30, 300, dict(), 80, 800) + _with_subtask(tier, seed, 20)
    for cfg in pool:
        ops = [{"op": "simulate", "light": True}]
        # arbitrary edit sequences on a result that may contain absence steps
        for _ in range(3):
            if rng.random() < 0.4:
                ops.append({"op": "remove_absence"})
            else:
                L = sorted(set(rng.sample(range(0, 14), rng.randint(1, 3))))
                if rng.random() < 0.4:
                    # a step that is already an absence step of the run, or one beyond the end
                    present = [a for a in cfg["opts"]["absL"] if a not in L]
                    L = L + ([rng.choice(present)] if present and rng.random() < 0.5 else [40])
                ops.append({"op": "insert_absence", "L": L})
        # round trip on an absence-free result
        ops += [{"op": "rebuild"}, {"op": "simulate", "opts": {"absL": []}, "light": True}]
        ref = len(ops)
        L = sorted(set(rng.sample(range(0, 8), rng.randint(1, 3))))
        ops += [{"op": "insert_absence", "L": L}, _cmp({"op": "remove_absence"}, ref, "C18", "lg")]
        out.append(_hist(cfg, "c18", ops))
    return out


def c16_cases(tier, seed):
    rng = _random.Random(seed + 16)
    out = []
    pool = _pool(tier, seed, ["deps", "placeflat", "dag", "pairs", "conveyor"], 30, 300, dict(), 80, 800) + _with_subtask(tier, seed, 20)
    # numeric edge values: 0 / 0.0 / -1 for every numeric constructor parameter of the model
    for cfg in _rand(tier, seed + 5, 40, 400, "E"):
        cfg = json.loads(json.dumps(cfg))
        for c in cfg["comps"][:1]:
            c["space"] = 0
        for t in cfg["tasks"][:2]:
            t["due"] = rng.choice([0, -1])
        if cfg["tasks"]:
            cfg["tasks"][-1]["work"] = 0
            cfg["tasks"][-1]["prog"] = 0
        for w in cfg["workers"][:1]:
            w["cost"] = 0
        for f in cfg["facs"][:1]:
            f["cost"] = 0
        for w in cfg["wps"][-1:]:
            w["cap"] = rng.choice([0, w["cap"]])
        # half of them get their numbers assigned as attributes after construction
        cfg["assignAfter"] = rng.random() < 0.5
        pool.append(cfg)
    # models whose teams target their tasks one-sidedly (as BaseTeam(targeted_task_list=[...]) does)
    for cfg in _rand(tier, seed + 6, 25, 250, "O"):
        cfg = json.loads(json.dumps(cfg))
        cfg["oneSidedTeams"] = True
        pool.append(cfg)
    for cfg in pool:
        k = rng.randint(0, 5)
        simple = _saved_format_only(cfg)
        ops = [{"op": "simulate", "light": True},                      # 1 reference
               {"op": "rebuild", "plain": True}, {"op": "snapshot"},
               # the structural graph before and after the round trip (run 4 = reference)
               {"op": "graph", "workers": True, "facilities": True},
               {"op": "saveload"},                                                         # never simulated
               {"op": "saveload"},                                                         # (and once more)
               _cmp({"op": "graph", "workers": True, "facilities": True}, 4, "C16", "graph")]  # after two round trips
        ops += [_cmp({"op": "simulate", "light": True}, 1, "C16", "lg")] if simple else [{"op": "simulate", "light": True}]
        ops += [{"op": "saveload"}]                                                        # finished forward
        ops += [{"op": "rebuild", "plain": True}, {"op": "simulate", "opts": {"maxTime": k}, "light": True},
                {"op": "saveload"}]                                                        # paused
        ops += [{"op": "rebuild", "plain": True}, {"op": "backward", "light": True}, {"op": "saveload"}]
        ops += [{"op": "rebuild", "plain": True}, {"op": "simulate", "opts": {"absL": [1, 2]}, "light": True},
                {"op": "remove_absence"}, {"op": "saveload"}]
        out.append(_hist(cfg, "c16", ops, plain=True))
    return out


def c10_hist_cases(tier, seed):
    out = []
    pool = _pool(tier, seed, ["abs"], 200, 2000, dict(components=False, facilities=False), 100, 1000)
    rng = _random.Random(seed + 10)
    for cfg in pool:
        if any(w["abs"] for w in cfg["workers"]) or any(f["abs"] for f in cfg["facs"]):
            continue
        if any(t["auto"] and t["comp"] for t in cfg["tasks"]):
            continue
        if any(t["auto"] for t in cfg["tasks"]) and cfg["opts"]["autoAbs"]:
            continue
        if cfg["opts"]["rule"] != "TSLACK":
            continue
        Ls = [cfg["opts"]["absL"] or sorted(set(rng.sample(range(0, 8), rng.randint(1, 3))))]
        # runs of consecutive absence steps early, in the middle and at / beyond the end of the run
        Ls += [rng.choice([[0, 1, 2], [1, 2, 3], [2, 3, 4], [3, 4, 5], [4, 5, 6], [1, 3, 5], [5, 6, 7], [2, 4, 30]])]
        ops = [{"op": "simulate", "opts": {"absL": []}, "light": True}]
        for L in Ls:
            ops += [{"op": "rebuild"}, {"op": "simulate", "opts": {"absL": L}, "light": True},
                    _cmp({"op": "remove_absence"}, 1, "C10", "lg-success")]
        out.append(_hist(cfg, "c10", ops))
    return out


def c10_backward_cases(tier, seed):
    """The absence round trip in backward mode: backward_simulate with project absence steps (also
    one at and one just beyond the end of the run), remove_absence_time_list, compared with the
    backward run without absence."""
    out = []
    pool = _pool(tier, seed, ["abs", "deps"], 60, 600, None)
    rng = _random.Random(seed + 1011)
    for cfg in pool:
        if any(w["abs"] for w in cfg["workers"]) or any(t["auto"] for t in cfg["tasks"]) or cfg["opts"]["rule"] != "TSLACK":
            continue
        ops = [{"op": "backward", "opts": {"absL": []}, "light": True}]
        for k in rng.sample(range(0, 9), 4):
            L = [k] if rng.random() < 0.5 else [k, k + 1]
            ops += [{"op": "rebuild"}, {"op": "backward", "opts": {"absL": L}, "light": True},
                    _cmp({"op": "remove_absence"}, 1, "C10", "lg-success")]
        out.append(_hist(cfg, "c10bw", ops))
    return out


def c08_hist_cases(tier, seed):
    rng = _random.Random(seed + 8)
    out = []
    pool = _pool(tier, seed, ["deps", "placeflat"], 40, 400, dict(), 60, 600)
    alphabet = ["sim", "sim_light", "init", "pause_resume", "backward", "reverse", "sim_keep_logs", "sim_keep_state",
                "cut_abs_reverse"]
    for cfg in pool:
        ops = []
        for _ in range(3 if tier == "quick" else 4):
            a = rng.choice(alphabet)
            if a == "sim":
                ops.append({"op": "simulate"})
            elif a == "sim_light":
                ops.append({"op": "simulate", "light": True, "opts": {"absL": [1]}})
            elif a == "init":
                ops.append({"op": "initialize", "state": rng.random() < 0.7, "log": rng.random() < 0.8})
            elif a == "sim_keep_logs":      # state re-initialised, logs (and time) continue
                ops.append({"op": "simulate", "initState": True, "initLog": False, "opts": {"maxTime": 60}})
            elif a == "sim_keep_state":     # logs (and time) re-initialised, state kept
                ops.append({"op": "simulate", "initState": False, "initLog": True})
            elif a == "pause_resume":
                ops += [{"op": "simulate", "opts": {"maxTime": rng.randint(0, 6)}, "light": True},
                        {"op": "simulate", "initState": False, "initLog": False}]
            elif a == "cut_abs_reverse":
                # a run cut off right after an absence step (the last recorded step is an absence
                # step; one listed step lies just beyond the end), then turned round
                k = rng.randint(1, 5)
                ops += [{"op": "simulate", "light": True, "opts": {"maxTime": k, "absL": [k - 1, k]}}, {"op": "reverse"}]
            elif a == "backward":
                ops.append({"op": "backward", "due": rng.random() < 0.5, "reverse": rng.random() < 0.5})
            else:
                ops.append({"op": "reverse"})
        if ops[0]["op"] in ("initialize", "reverse") or ops[0].get("initState") is False or ops[0].get("initLog") is False:
            ops.insert(0, {"op": "simulate", "light": True})
        out.append(_hist(cfg, "c08", ops))
    return out


def c20_cases(tier, seed):
    rng = _random.Random(seed + 20)
    parents = _fam("sub", tier, 200, 2000, seed)
    children = _pool(tier, seed, ["deps", "abs"], 60, 600, dict(components=False, facilities=False), 40, 400, prefix="K")
    out = []
    for i, pc in enumerate(parents):
        ch = children[i % len(children)]
        su, pu = pc["units"]
        variant = rng.random()
        spec = {"kind": "subproject", "cfg": dict(pc, id=pc["id"] + "#c20"), "child": ch, "su": su, "pu": pu,
                "flag": rng.random() < 0.5, "sub": 2,
                "childOpts": {"absL": rng.choice([[], [1], [0, 2, 30], [1, 2]])}}
        if variant < 0.12:
            spec["childOpts"]["maxTime"] = 1          # child not finished: FAILURE
        elif variant < 0.2:
            spec["childSimulated"] = False            # child never simulated
        out.append(spec)
    return out


def c01_edit_cases(tier, seed):
    """The workflow is edited between two runs (a dependency is added): the second run has to
    respect the new link."""
    rng = _random.Random(seed + 1)
    out = []
    for cfg in _pool(tier, seed, ["deps"], 150, 1500, dict(components=False, facilities=False), 60, 600, prefix="A"):
        n = len(cfg["tasks"])
        have = {(p, s) for p, s, _ in cfg["deps"]} | {(s, p) for p, s, _ in cfg["deps"]}
        # a new edge that keeps the graph acyclic: from a task with no predecessors to one that is
        # not among its ancestors - simplest: orient along a topological order of the existing graph
        order = _topo(n, cfg["deps"])
        cands = [(order[i], order[j]) for i in range(n) for j in range(i + 1, n) if (order[i], order[j]) not in have]
        if not cands:
            continue
        p, s = rng.choice(cands)
        k = rng.choice(["FS", "SS", "FF", "SF"])
        ops = [{"op": "simulate", "light": True}, {"op": "add_dep", "dep": [p, s, k]}, {"op": "simulate"},
               {"op": "rebuild"}, _cmp({"op": "simulate", "light": True}, 3, "C09", "lg")]
        out.append(_hist(cfg, "c01edit", ops))
    return out


def c05_edit_cases(tier, seed):
    """The model is extended between two runs (new task + new worker): the second run has to
    complete as well."""
    out = []
    for cfg in _pool(tier, seed, ["deps", "alloc"], 40, 400, dict(components=False, facilities=False), 30, 300, prefix="W"):
        ops = [{"op": "simulate", "light": True}, {"op": "add_worker_task"}, {"op": "simulate"},
               {"op": "rebuild"}, _cmp({"op": "simulate", "light": True}, 3, "C09", "lg")]
        out.append(_hist(cfg, "c05edit", ops))
    return out


def c09_retarget_cases(tier, seed):
    """The organization is edited between two runs (a team is put in charge of one more task, the
    absence calendar of a worker is changed): the second run has to be the run of the edited
    model - nothing derived from the old model may survive the first run."""
    rng = _random.Random(seed + 909)
    out = []
    for cfg in _pool(tier, seed, ["alloc", "abs"], 120, 1200, dict(components=False, facilities=False), 80, 800, prefix="G"):
        cands = [(tm, i) for i, t in enumerate(cfg["tasks"], 1) for tm in range(1, cfg["nTeam"] + 1)
                 if tm not in t["teams"]]
        if cands:
            tm, ti = rng.choice(cands)
            ops = [{"op": "simulate", "light": True}, {"op": "add_team_target", "team": tm, "task": ti},
                   {"op": "simulate"}, {"op": "rebuild"}, _cmp({"op": "simulate", "light": True}, 3, "C09", "lg")]
            out.append(_hist(cfg, "c09team", ops))
        if cfg["workers"]:
            w = rng.randint(1, len(cfg["workers"]))
            old = cfg["workers"][w - 1]["abs"]
            L = sorted(set(rng.sample(range(0, 6), rng.randint(1, 3))))
            if L == sorted(old):
                L = [x + 1 for x in L]
            ops = [{"op": "simulate", "light": True}, {"op": "edit_abs", "who": "worker", "i": w, "L": L},
                   {"op": "simulate"}, {"op": "rebuild"}, _cmp({"op": "simulate", "light": True}, 3, "C09", "lg")]
            out.append(_hist(cfg, "c09abs", ops))
    for cfg in _pool(tier, seed, ["pairs"], 60, 600, None, prefix="G"):
        if cfg["facs"]:
            f = rng.randint(1, len(cfg["facs"]))
            L = sorted(set(rng.sample(range(0, 5), rng.randint(1, 2))))
            if L == sorted(cfg["facs"][f - 1]["abs"]):
                L = [x + 1 for x in L]
            ops = [{"op": "simulate", "light": True}, {"op": "edit_abs", "who": "fac", "i": f, "L": L},
                   {"op": "simulate"}, {"op": "rebuild"}, _cmp({"op": "simulate", "light": True}, 3, "C09", "lg")]
            out.append(_hist(cfg, "c09fabs", ops))
    return out


def _topo(n, deps):
    preds = {i: set() for i in range(1, n + 1)}
    for p, s, _ in deps:
        preds[s].add(p)
    order, done = [], set()
    while len(order) < n:
        for i in range(1, n + 1):
            if i not in done and preds[i] <= done:
                order.append(i)
                done.add(i)
                break
        else:
            break
    return order + [i for i in range(1, n + 1) if i not in done]


def c05_maxtime_cases(tier, seed):
    """max_time at, just below and just above the makespan: status must stay truthful."""
    out = []
    for cfg in _pool(tier, seed, ["deps", "abs"], 60, 600, dict(components=False, facilities=False), 40, 400, prefix="M"):
        ops = []
        for k in range(0, 9 if tier == "quick" else 16):
            ops += [{"op": "rebuild"}, {"op": "simulate", "opts": {"maxTime": k}, "light": True}]
        out.append(_hist(cfg, "c05max", ops))
    return out


PLANS["C20"] = dict(cases=c20_cases)

PLANS["C19"] = dict(cases=report_cases())
PLANS["C09"] = dict(cases=both(c09_cases, c09_order_search), l1=l1(dict(family="deps", invariants=["Inv_C09"])))
PLANS["C15"] = dict(cases=c15_cases, l1=l1(dict(family="deps", invariants=["Inv_C15"])))
PLANS["C17"] = dict(cases=c17_cases, l1=l1(dict(family="deps", invariants=["Inv_C17"])))
PLANS["C18"] = dict(cases=c18_cases, l1=l1(dict(family="abs", invariants=["Inv_C18"]), dict(family="placeflat", invariants=["Inv_C18"])))
PLANS["C16"] = dict(cases=c16_cases)
def _hist_op(o):
    """A history operation exported by spec/PdesyHist.tla -> the harness's op format."""
    k = o["op"]
    if k == "simulate":
        opts = {"absL": list(o["absL"])}
        if o["maxTime"] >= 0:
            opts["maxTime"] = o["maxTime"]
        return {"op": "simulate", "opts": opts, "initState": o["initState"], "initLog": o["initLog"], "light": True}
    if k == "initialize":
        return {"op": "initialize", "state": o["state"], "log": o["log"]}
    if k == "backward":
        return {"op": "backward", "due": o["due"], "reverse": o["reverse"], "light": True}
    if k == "insert_absence":
        return {"op": "insert_absence", "L": list(o["L"])}
    if k == "insert_absence_rel":
        return {"op": "insert_absence", "L": list(o["L"]), "rel": True}
    return {"op": k}


def tlc_hist_cases(family, base_fams, nbase_q=3, nbase_t=12):
    """Every operation history TLC enumerates from spec/PdesyHist.tla, replayed on base models."""
    def cases(tier, seed):
        t = 1 if tier == "quick" else 2
        hists = families.export_family(family, t, module="PdesyHist")
        rng = _random.Random(seed + 88)
        bases = []
        for f in base_fams:
            allc = families.export_family(f, 1)
            bases += rng.sample(allc, nbase_q if tier == "quick" else nbase_t)
        bases += _rand(tier, seed + 3, 1, 8, "B")
        if tier != "quick" and len(hists) > 6000:
            hists = rng.sample(hists, 6000)
        out = []
        for bi, cfg in enumerate(bases):
            for h in hists:
                out.append(_hist(dict(cfg, id="%s.b%d" % (h["id"], bi)), "h", [_hist_op(o) for o in h["ops"]]))
        return out
    return cases


PLANS["C05"]["cases"] = both(PLANS["C05"]["cases"], c05_maxtime_cases, c05_edit_cases)
PLANS["C07"]["cases"] = both(PLANS["C07"]["cases"], tlc_hist_cases("histC18", ["pairs", "alloc"], 1, 4))
PLANS["C01"]["cases"] = both(PLANS["C01"]["cases"], c01_edit_cases)
# edits of the model between two runs: no run may depend on what an earlier run derived
PLANS["C09"]["cases"] = both(PLANS["C09"]["cases"], c01_edit_cases, c05_edit_cases, c09_retarget_cases)
PLANS["C04"]["cases"] = both(PLANS["C04"]["cases"], c09_retarget_cases)
# an edited absence calendar is the calendar of the next run
PLANS["C10"]["cases"] = both(PLANS["C10"]["cases"], c09_retarget_cases, c10_resume_cases, unit2_cases(), c10_backward_cases)
PLANS["C08"]["cases"] = both(PLANS["C08"]["cases"], c08_hist_cases, unit2_cases(),
                               tlc_hist_cases("histC08", ["deps", "placeflat"], 1, 6))
PLANS["C18"]["cases"] = both(PLANS["C18"]["cases"], tlc_hist_cases("histC18", ["abs", "placeflat"], 1, 6))
PLANS["C10"]["cases"] = both(PLANS["C10"]["cases"], c10_hist_cases)
UNREGISTERED |= set()


def situations(recs):
    """Anti-vacuity counters: how often the situations the clauses speak about occurred in the
    recorded runs (computed from the recorded events / final logs)."""
    c = {"worker_allocations": 0, "facility_pair_allocations": 0, "tasks_finished": 0,
         "finish_blocked_by_FF_or_SF_gate": 0, "absence_steps": 0, "steps": 0, "component_moves": 0,
         "steps_with_contention": 0, "resource_individually_absent_while_assigned": 0,
         "runs_success": 0, "runs_failure": 0, "runs_crashed": 0, "history_comparisons": 0}
    for case in recs:
        cfg = case.get("cfg", {})
        for r in case["runs"]:
            if r.get("args", {}).get("cmp"):
                c["history_comparisons"] += 1
            if r["op"] not in ("simulate", "backward"):
                continue
            st = r.get("final", {}).get("lg", {}).get("status")
            if r["ret"].startswith("exc"):
                c["runs_crashed"] += 1
            elif st == "SUCCESS":
                c["runs_success"] += 1
            elif st == "FAILURE":
                c["runs_failure"] += 1
            ev = r.get("ev", [])
            prev = None
            for e in ev:
                s = e["st"]
                if e["ph"] == "recorded":
                    c["steps"] += 1
                    if not e.get("working", True):
                        c["absence_steps"] += 1
                    free = sum(1 for x in s["ws"] if x == "FREE")
                    waiting = sum(1 for i, x in enumerate(s["ts"]) if x == "READY" and not s["aw"][i])
                    if waiting and not free:
                        c["steps_with_contention"] += 1
                    for w, x in enumerate(s["ws"]):
                        if x == "ABSENCE" and s["wt"][w] and e.get("working", True):
                            c["resource_individually_absent_while_assigned"] += 1
                if prev is not None:
                    p = prev["st"]
                    if e["ph"] in ("alloc_task", "allocated") and len(p["ts"]) == len(s["ts"]):
                        for i in range(len(s["ts"])):
                            d = len(s["aw"][i]) - len(p["aw"][i])
                            if d > 0:
                                c["worker_allocations"] += d
                                if len(s["af"][i]) > len(p["af"][i]):
                                    c["facility_pair_allocations"] += d
                        c["component_moves"] += sum(1 for a, b in zip(p["cp"], s["cp"]) if a != b and b != 0)
                    if e["ph"] == "finished" and len(p["ts"]) == len(s["ts"]):
                        for i in range(len(s["ts"])):
                            if s["ts"][i] == "FINISHED" and p["ts"][i] != "FINISHED":
                                c["tasks_finished"] += 1
                            if s["ts"][i] == "WORKING" and s["rem"][i] <= 0:
                                c["finish_blocked_by_FF_or_SF_gate"] += 1
                prev = e
    return c


def _more_l1(prop, *insts):
    """Additional model-checking instances (thorough tier only unless quick=True)."""
    old = PLANS[prop].get("l1", l1())
    extra = l1(*[dict(i, thorough_only=not i.pop("quick", False)) for i in [dict(x) for x in insts]])
    PLANS[prop]["l1"] = lambda tier, seed=0: old(tier, seed) + extra(tier, seed)


_more_l1("C01", dict(family="deps4", invariants=["Inv_C01"], properties=["Prop_C01"], tier=1))
_more_l1("C02", dict(family="placeflat", invariants=["Inv_C02"], properties=["Prop_C02"]),
         dict(family="conveyor", invariants=["Inv_C02"], properties=["Prop_C02"]))
_more_l1("C03", dict(family="conveyor", invariants=["Inv_C03"], properties=["Prop_C03"]),
         dict(family="abs", invariants=["Inv_C03"], properties=["Prop_C03"]))
_more_l1("C04", dict(family="conveyor", invariants=["Inv_C04"], properties=["Prop_C04"]),
         dict(family="fixed", invariants=["Inv_C04"], properties=["Prop_C04"], quick=True))
_more_l1("C06", dict(family="fixed", invariants=["Inv_C06"], properties=["Prop_C06"], quick=True),
         dict(family="conveyor", invariants=["Inv_C06"], properties=["Prop_C06"], quick=True),
         dict(family="place", invariants=["Inv_C06"], properties=["Prop_C06"], quick=True),
         dict(family="nest2", invariants=["Inv_C06"], properties=["Prop_C06"], quick=True))
_more_l1("C11", dict(family="fixed", properties=["Prop_C11"], quick=True), dict(family="mainwp", properties=["Prop_C11"], quick=True))
_more_l1("C02", dict(family="half", invariants=["Inv_C02"], properties=["Prop_C02"], quick=True))
_more_l1("C01", dict(family="half", invariants=["Inv_C01"], properties=["Prop_C01"], quick=True))
_more_l1("C04", dict(family="mainwp", invariants=["Inv_C04"], properties=["Prop_C04"]))
_more_l1("C13", dict(family="mainwp", invariants=["Inv_C13"], properties=["Prop_C13"], quick=True),
         dict(family="autocomp", invariants=["Inv_C13"], properties=["Prop_C13"], quick=True))
_more_l1("C10", dict(family="autocomp", invariants=["Inv_C10"], properties=["Prop_C10"], quick=True))
_more_l1("C14", dict(family="autocomp", invariants=["Inv_C14"], properties=["Prop_C14"], quick=True))
_more_l1("C05", dict(family="alloc", invariants=["Inv_C05"], properties=["Live_C05"], tier=1),
         dict(family="deps2", invariants=["Inv_C05"], properties=["Live_C05"]),
         dict(family="deps4", invariants=["Inv_C05"], tier=1))
_more_l1("C06", dict(family="placeflat", invariants=["Inv_C06"], properties=["Prop_C06"]),
         dict(family="conveyor", invariants=["Inv_C06"], properties=["Prop_C06"]),
         dict(family="pairs", invariants=["Inv_C06"], properties=["Prop_C06"], quick=True),
         dict(family="deps2", invariants=["Inv_C06"], properties=["Prop_C06"]))
_more_l1("C07", dict(family="pairs", invariants=["Inv_C07"]), dict(family="placeflat", invariants=["Inv_C07"]))
_more_l1("C08", dict(family="deps", invariants=["Inv_C08", "RunAgrees"]), dict(family="placeflat", invariants=["Inv_C08", "RunAgrees"]),
         dict(family="pairs", invariants=["Inv_C08", "RunAgrees"]), dict(family="conveyor", invariants=["Inv_C08", "RunAgrees"]))
_more_l1("C09", dict(family="abs", invariants=["Inv_C09"], tier=1), dict(family="deps2", invariants=["Inv_C09"], tier=1),
         dict(family="pairs", invariants=["Inv_C09"], tier=1))
_more_l1("C10", dict(family="pairs", invariants=["Inv_C10"], properties=["Prop_C10"], quick=True))
_more_l1("C13", dict(family="pairs", invariants=["Inv_C13"], properties=["Prop_C13"]))
_more_l1("C14", dict(family="placeflat", invariants=["Inv_C14"], properties=["Prop_C14"]),
         dict(family="dag", invariants=["Inv_C14"], properties=["Prop_C14"], quick=True))
_more_l1("C15", dict(family="alloc", invariants=["Inv_C15"], tier=1), dict(family="abs", invariants=["Inv_C15"]),
         dict(family="placeflat", invariants=["Inv_C15"]), dict(family="conveyor", invariants=["Inv_C15"]),
         dict(family="pairs", invariants=["Inv_C15"], quick=True))
_more_l1("C17", dict(family="deps2", invariants=["Inv_C17"]), dict(family="abs", invariants=["Inv_C17"]))
for _p, _inv, _prop in [("C01", ["Inv_C01"], ["Prop_C01"]), ("C02", ["Inv_C02"], ["Prop_C02"]), ("C03", ["Inv_C03"], ["Prop_C03"]),
                        ("C05", ["Inv_C05"], ["Live_C05"]), ("C06", ["Inv_C06"], ["Prop_C06"]), ("C07", ["Inv_C07"], []),
                        ("C08", ["Inv_C08", "RunAgrees"], []), ("C11", [], ["Prop_C11"])]:
    _more_l1(_p, dict(family="edge", invariants=_inv, properties=_prop, quick=True, tier=1))
