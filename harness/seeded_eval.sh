#!/bin/bash
# usage: seeded_eval.sh <prop id> <n>   -- takes /tmp/mut/<id>/patch<n>.diff + demo<n>.py, confirms the
# demonstration in a scratch worktree, runs every registered quick check against the change, and
# files the result under /verif/seeded/<id>-<n>/ (patch.diff, demo.py, notes.md, results.json)
set -u
ID=$1; N=$2
SRC=${MUTSRC:-/tmp/mut}/$ID
OUT=/verif/seeded/${MUTOUT:-$ID-${MUTTAG:-}$N}
[ -f $SRC/patch$N.diff ] || { echo "no patch $SRC/patch$N.diff"; exit 1; }
mkdir -p $OUT
WT=$(mktemp -d -u /tmp/confirm-wt-XXXXXX)
git -C /repo worktree add -q --detach $WT HEAD
sed "s#${MUTWT:-/tmp/wt}/$ID#$WT#g" $SRC/demo$N.py > $WT/_demo.py
( cd $WT && MPLBACKEND=Agg /venv/bin/python _demo.py > $OUT/demo_clean.log 2>&1 ); CLEAN=$?
git -C $WT apply $SRC/patch$N.diff; APPLY=$?
( cd $WT && MPLBACKEND=Agg /venv/bin/python _demo.py > $OUT/demo_patched.log 2>&1 ); PATCHED=$?
rm -f $WT/_demo.py
TESTS=$( cd $WT && env -u PDESY_VERIF /venv/bin/python -m pytest -q -p no:cacheprovider 2>&1 | tail -1 )
git -C /repo worktree remove --force $WT
echo "apply=$APPLY demo_clean_rc=$CLEAN demo_patched_rc=$PATCHED tests='$TESTS'" | tee $OUT/confirm.txt
cp $SRC/patch$N.diff $OUT/patch.diff; cp $SRC/demo$N.py $OUT/demo.py; cp $SRC/notes.md $OUT/notes.md 2>/dev/null
if [ $CLEAN -ne 0 ] || [ $PATCHED -eq 0 ] || [ $APPLY -ne 0 ]; then echo "NOT CONFIRMED" | tee -a $OUT/confirm.txt; fi
shift; shift
cd /verif && /venv/bin/python -m harness.seeded $OUT/patch.diff $OUT "$@" 2>&1 | tail -25
