"""python -m harness.seeded <patch.diff> <out dir> [property ids...]

Evaluate the checks against a seeded breaking change without touching /repo: a scratch git
worktree of /repo's HEAD is created under /tmp, the patch is applied there, the quick checks
of the given properties (default: all registered) are run against it (PDESY_REPO), their
verdict lines are collected in <out dir>/results.json and the worktree is removed."""
import json
import os
import shutil
import subprocess
import sys
import tempfile
import time

from . import VERIF


def main():
    patch, outdir = os.path.abspath(sys.argv[1]), os.path.abspath(sys.argv[2])
    props = sys.argv[3:]
    if not props:
        m = json.load(open(os.path.join(VERIF, "MANIFEST.json")))
        props = [c["property_id"] for c in m["checks"]]
    os.makedirs(outdir, exist_ok=True)
    wt = tempfile.mkdtemp(prefix="seeded-wt-", dir="/tmp")
    os.rmdir(wt)
    subprocess.run(["git", "-C", "/repo", "worktree", "add", "-q", "--detach", wt, "HEAD"], check=True)
    results = {}
    try:
        subprocess.run(["git", "-C", wt, "apply", patch], check=True)
        env = dict(os.environ, PDESY_REPO=wt, VERIF_EVIDENCE_DIR=os.path.join(outdir, "evidence"),
                   VERIF_REPLAY_DIR=os.path.join(outdir, "replays"))
        t = subprocess.run(["/venv/bin/python", "-m", "pytest", "-q", "-p", "no:cacheprovider", "-x"], cwd=wt,
                           stdout=subprocess.PIPE, stderr=subprocess.STDOUT, text=True,
                           env={k: v for k, v in os.environ.items() if k != "PDESY_VERIF"})
        results["_tests"] = t.stdout.strip().splitlines()[-1] if t.stdout.strip() else "?"
        for p in props:
            t0 = time.time()
            r = subprocess.run(["/venv/bin/python", "-m", "harness.check", p, "--tier", "quick"], cwd=VERIF, env=env,
                               stdout=subprocess.PIPE, stderr=subprocess.STDOUT, text=True)
            lines = r.stdout.strip().splitlines()
            results[p] = {"rc": r.returncode, "wall_s": round(time.time() - t0, 1),
                          "violations": [l for l in lines if l.startswith("VIOLATION")][:6],
                          "drift": [l for l in lines if l.startswith("DRIFT")][:2],
                          "last": lines[-1] if lines else ""}
            print(p, "rc=%d" % r.returncode, (results[p]["violations"] or [""])[0][:160], flush=True)
    finally:
        subprocess.run(["git", "-C", "/repo", "worktree", "remove", "--force", wt])
        shutil.rmtree(wt, ignore_errors=True)
        shutil.rmtree(os.path.join(outdir, "evidence"), ignore_errors=True)
    with open(os.path.join(outdir, "results.json"), "w") as f:
        json.dump(results, f, indent=1)
    caught = sorted(p for p, r in results.items() if p != "_tests" and r["rc"] == 1)
    print("tests:", results["_tests"], "| caught by:", caught)


if __name__ == "__main__":
    main()
