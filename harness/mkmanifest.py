"""Regenerate /verif/MANIFEST.json from the registered plans (keeps it schema-valid)."""
import json
import os
import subprocess

from . import VERIF

TEXT = {
    "C01": "dependency gates and forward-only lifecycle",
    "C02": "remaining work changes only by the allocated contribution; prompt finish",
    "C03": "exclusive, two-way consistent allocation; resource state; release on finish",
    "C04": "eligibility of every allocated worker / worker-facility pair",
    "C05": "simulate returns, truthful status, feasible projects complete (liveness under WF)",
    "C06": "no avoidable waiting (ready gate, auto tasks, idle workers, prompt finish)",
    "C07": "cost accounting at every level",
    "C08": "one log entry per step equal to the live state",
    "C09": "reproducibility: every visiting order, rebuilt model, repeated simulate",
    "C10": "absence is dead time; removing absence steps gives the absence-free run",
    "C11": "sort functions follow the documented keys; no priority inversion in allocation",
    "C12": "PERT/CPM equals the declarative critical-path computation at every update",
    "C13": "component placement: single place, capacity, conveyor, once per step, site consistency",
    "C14": "component state determined by its tasks",
    "C15": "pause at any step and resume gives the uninterrupted result",
    "C16": "JSON save/load at any stage",
    "C17": "backward simulation restores the structure, also after an exception",
    "C18": "editing absence steps keeps all logs aligned",
    "C19": "Gantt intervals, chart rows, extract queries and dates report the logs",
    "C20": "sub-project task duration",
}


def _l1_summary(pid):
    from . import plans
    f = plans.PLANS[pid].get("l1")
    if f is None:
        return "no separate model-checking instance: the property is about API-level results that the trace specification judges (TLC evaluates the specification's operators on every recorded run)", ""
    def fmt(insts):
        return "; ".join("%s: %s" % (i["family"], ", ".join(i.get("invariants", []) + i.get("properties", []))) for i in insts)
    q = f("quick", 0)
    t = [i for i in f("thorough", 0) if i not in q]
    return "L1 instances (quick): " + fmt(q), ("; additionally in the thorough tier (tier-2 bounds): " + fmt(t)) if t else ""


def build(registered, not_applicable):
    props = [json.loads(l) for l in open(os.path.join(VERIF, "properties.jsonl"))]
    ids = [p["id"] for p in props]
    hooks_commits = subprocess.run(
        ["git", "-C", "/repo", "log", "--format=%h", "--grep=^verif hooks"], stdout=subprocess.PIPE, text=True
    ).stdout.split()
    checks = []
    for pid in ids:
        if pid not in registered:
            continue
        checks.append({
            "property_id": pid,
            "quick_cmd": "cd /verif && /venv/bin/python -m harness.check %s --tier quick" % pid,
            "thorough_cmd": "cd /verif && /venv/bin/python -m harness.check %s --tier thorough" % pid,
            "evidence_file": "/verif/evidence/%s.json" % pid,
            "replay_cmd_template": "cd /verif && /venv/bin/python -m harness.replay {path}",
            "engine": "tlc",
            "level_claimed": {
                "category": "model_checking",
                "text": "TLC model-checks the explicit TLA+ specification of the pDESy step machine over bounded "
                        "families of project models (%s), and the same clause operators are evaluated by TLC on "
                        "traces recorded from the real code for TLC-enumerated and seeded random models; every "
                        "recorded phase step must be the specification's step (conformance). %s%s" % ((TEXT[pid],) + _l1_summary(pid)),
                "design_ref": "DESIGN.md section 6 (%s)" % pid,
            },
            "level_note": "Bounded families (see spec/PdesyFamilies.tla), exact dyadic numbers, deterministic skills; "
                          "trusts TLC, the projection harness/observe.py and the phase hook (PDESY_VERIF=1).",
            "technique": "TLA+ model checking (TLC) of spec/MC_*.tla + TLC trace validation of the implementation "
                         "against the specification (spec/Trace*.tla)",
        })
    m = {
        "version": 1,
        "setup_cmd": "cd /verif && /venv/bin/python -m harness.setup",
        "hooks": {
            "guard": "PDESY_VERIF",
            "enable": "PDESY_VERIF=1 in the environment before pDESy is imported (pure Python, no build step); "
                      "the harness sets it itself and puts /repo first on sys.path",
            "baseline_off_cmd": "cd /repo && env -u PDESY_VERIF /venv/bin/python -m pytest -ra -q -p no:cacheprovider --timeout=900",
            "source_commits": hooks_commits,
            "add_only": True,
        },
        "engines": [
            {"name": "tlc", "path": "/opt/veriftools/tla/tla2tools.jar", "serves_properties": sorted(registered),
             "kind_free_text": "TLC 1.8 explicit-state model checker: model checking of the specification and "
                               "validation of implementation traces"},
        ],
        "checks": checks,
        "not_applicable": [{"property_id": i, "reason": r} for i, r in sorted(not_applicable.items())],
        "notes": "See DESIGN.md. Known findings: known_findings.json. Seeded breaking changes: seeded/.",
    }
    with open(os.path.join(VERIF, "MANIFEST.json"), "w") as f:
        json.dump(m, f, indent=1)
    return m


if __name__ == "__main__":
    from . import plans
    props = [json.loads(l)["id"] for l in open(os.path.join(VERIF, "properties.jsonl"))]
    reg = set(plans.PLANS) - set(plans.UNREGISTERED)
    na = {p: "check still under construction in this round (see DESIGN.md section 10); not claimed yet"
          for p in props if p not in reg}
    build(reg, na)
    print("registered", sorted(reg))
