"""Parallel driving of the real code, L1 model-checking runs and replay of counterexamples."""
import json
import multiprocessing as mp
import os
import re
import shutil
import time

from . import drive, tlc


def _drive_chunk(specs):
    return [drive.run_case(s) for s in specs]


def drive_parallel(specs, procs=16):
    if not specs:
        return []
    if len(specs) < 8:
        return _drive_chunk(specs)
    n = max(1, min(procs, len(specs) // 4))
    chunks = [specs[i::n * 4] for i in range(n * 4)]
    chunks = [c for c in chunks if c]
    ctx = mp.get_context("fork")
    with ctx.Pool(n) as pool:
        parts = pool.map(_drive_chunk, chunks)
    out = [r for p in parts for r in p]
    order = {s["cfg"]["id"] + "/" + s.get("tag", ""): i for i, s in enumerate(specs)}
    out.sort(key=lambda r: order.get(r["cfg"]["id"] + "/" + r.get("tag", ""), 0))
    return out


def case_spec_of(case):
    """The replayable description of a recorded case."""
    return case.get("spec") or {"kind": "simulate", "cfg": case["cfg"]}


# ---------------------------------------------------------------------------------------
VIOL_RE = re.compile(r"Error: (?:Invariant|Action property|Temporal properties?) ?(\S*) (?:is|were) violated")


def model_check(inst, tier):
    """Run TLC on a model-checking instance.  inst: family, invariants, properties[, module,
    tier override, timeout, simulate]."""
    t0 = time.time()
    wd = tlc.workdir("mc")
    tnum = inst.get("tier", 1 if tier == "quick" else 2)
    module = inst.get("module", "MC_Pdesy")
    cfgf = os.path.join(wd, "mc.cfg")
    with open(cfgf, "w") as f:
        f.write("SPECIFICATION Spec\nCHECK_DEADLOCK FALSE\n")
        f.write('CONSTANTS FAMILY = "%s"\nTIER = %d\n' % (inst["family"], tnum))
        for c in inst.get("constants", []):
            f.write(c + "\n")
        for i in inst.get("invariants", []):
            f.write("INVARIANT %s\n" % i)
        for p in inst.get("properties", []):
            f.write("PROPERTY %s\n" % p)
    ce = os.path.join(wd, "ce.json")
    extra = ["-dumpTrace", "json", ce]
    env = None
    if inst.get("cfgs") is not None:
        # family read from a file: seeded random models beyond the exhaustive bounds
        module = "MC_PdesyFile"
        cf = os.path.join(wd, "cfgs.json")
        with open(cf, "w") as f:
            json.dump(inst["cfgs"], f)
        env = {"CFG_FILE": cf}
    try:
        rc, out = tlc.run_tlc(module, cfgf, wd, env=env, workers=inst.get("workers", 16),
                              timeout=inst.get("timeout", tlc.TLC_TIMEOUT_S), extra=extra, heap="8g", quickjit=False)
        st = tlc.parse_states(out)
        res = {"family": inst["family"], "tier": tnum, "module": module,
               "checked": inst.get("invariants", []) + inst.get("properties", []),
               "states": st[0] if st else 0, "distinct": st[1] if st else 0,
               "wall_s": round(time.time() - t0, 1), "tail": out[-1500:]}
        if "Model checking completed. No error has been found." in out:
            res["result"] = "ok"
        else:
            m = VIOL_RE.search(out)
            if m and os.path.exists(ce):
                res["result"] = "violated"
                res["violated"] = m.group(1) or "temporal"
                with open(ce) as f:
                    res["trace"] = json.load(f)
            else:
                res["result"] = "error"
        return res
    finally:
        shutil.rmtree(wd, ignore_errors=True)


def replay_counterexample(r, prop):
    """Run the cfg of a TLC counterexample through the real code and judge the recorded
    trace; the counterexample counts only if a clause of `prop` fails there too."""
    def find(x):
        if isinstance(x, dict):
            if "cfg" in x and isinstance(x["cfg"], dict) and "tasks" in x["cfg"]:
                return x["cfg"]
            for v in x.values():
                r2 = find(v)
                if r2 is not None:
                    return r2
        elif isinstance(x, list):
            for v in x:
                r2 = find(v)
                if r2 is not None:
                    return r2
        return None

    cfg = find(r["trace"])
    if cfg is None:
        raise tlc.MachineryError("cannot find cfg in TLC counterexample: %s" % str(r["trace"])[:400])
    cfg = dict(cfg)
    cfg["id"] = "L1-%s-%s" % (r["family"], r.get("violated", ""))
    spec = {"kind": "simulate", "cfg": cfg}
    case = drive.run_case(spec)
    res = tlc.validate_traces([case], props=[prop], shards=1)
    fails = [f for f in res["fails"] if f["clause"].startswith(prop + ".")]
    return {"reproduced": bool(fails), "fails": fails, "case": case}


# ---------------------------------------------------------------------------------------
def spec_runs(pairs, chunks=16):
    """The runs of the *specification* on the given (cfg, opts) pairs, in the format of recorded
    cases (Gen_SpecRun.tla exports RunRecordF: phase events, return value, final state and logs).
    They can be validated with TracePdesy exactly like runs of the code."""
    from concurrent.futures import ThreadPoolExecutor

    if not pairs:
        return []
    cfgs = []
    for i, (cfg, opts) in enumerate(pairs):
        c = json.loads(json.dumps(cfg))
        o = {k: opts[k] for k in ("absL", "autoAbs", "rule", "maxTime", "unit") if k in opts}
        c["opts"] = dict(c["opts"], **o)
        c["id"] = "specrun%d" % i
        cfgs.append(c)
    n = max(1, min(chunks, len(cfgs)))
    parts = [cfgs[i::n] for i in range(n)]
    wd = tlc.workdir("specrun")

    def one(j):
        sd = os.path.join(wd, "p%d" % j)
        os.makedirs(sd)
        cf, out, cfgf = os.path.join(sd, "cfgs.json"), os.path.join(sd, "out.ndjson"), os.path.join(sd, "gen.cfg")
        with open(cf, "w") as f:
            json.dump(parts[j], f)
        with open(cfgf, "w") as f:
            f.write("INIT Init\nNEXT Next\nCHECK_DEADLOCK FALSE\n")
        rc, o = tlc.run_tlc("Gen_SpecRun", cfgf, sd, env={"CFG_FILE": cf, "OUT_FILE": out}, workers=1,
                            timeout=tlc.TLC_TIMEOUT_S, heap="4g")
        if rc != 0 or not os.path.exists(out):
            raise tlc.MachineryError("export of specification runs failed:\n%s" % o[-2000:])
        with open(out) as f:
            return [json.loads(line) for line in f if line.strip()]

    try:
        with ThreadPoolExecutor(max_workers=n) as ex:
            recs = [r for part in ex.map(one, range(n)) for r in part]
    finally:
        shutil.rmtree(wd, ignore_errors=True)
    by_id = {r["id"]: r for r in recs}
    cases = []
    for c in cfgs:
        r = by_id[c["id"]]
        ev = [dict(e, inexact=[]) for e in r["ev"]]
        o2 = dict(c["opts"], initState=True, initLog=True)
        run = {"op": "simulate", "opts": o2, "args": {"cmp": 0, "plainTasks": False}, "obs": {},
               "ev": drive.annotate(ev), "ret": r["ret"],
               "final": {"st": r["final"]["st"], "lg": r["final"]["lg"], "inexact": []}}
        cases.append({"cfg": c, "runs": [run], "spec": {"kind": "specrun", "cfg": c}})
    return cases


def spec_falsifies(pairs, prop):
    """For each (cfg, opts): the set of clauses of `prop` that the specification's own run
    falsifies (plus the L2.* clauses, which must be empty: the run conforms to itself)."""
    cases = spec_runs(pairs)
    res = tlc.validate_traces(cases, props=[prop], shards=16)
    out = [set() for _ in pairs]
    idx = {c["cfg"]["id"]: i for i, c in enumerate(cases)}
    for f in res["fails"]:
        out[idx[f["case"]]].add(f["clause"])
    return out
