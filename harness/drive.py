"""Drive the real pDESy code along a case and record what the specification needs.

A *case* is {"cfg": ..., "kind": ..., ...}.  The record of a simulate() call is
  {"op": "simulate", "opts": {...}, "pre": lg|None, "ev": [{"ph","st","info"}...],
   "ret": "ok" | "exc:<Type>", "final": {"st","lg"}}
Events are the phase hook's events (PDESY_VERIF=1), each with the complete projected
state, so trace validation never has to guess a variable."""
import copy
import warnings

from .build import Model, TRULE
from .observe import Projector


class Abort(Exception):
    """Raised by the observer to model a fault at a chosen phase/step (C17)."""


class Recorder:
    def __init__(self, model, abort_at=None, light=False):
        self.model = model
        self.proj = Projector(model)
        self.ev = []
        self.abort_at = abort_at  # (phase, time) or None
        self.light = light  # record only phase names (used where no validation is needed)

    def __call__(self, project, phase, info):
        if not self.light:
            e = {"ph": phase, "st": self.proj.state(), "inexact": sorted(set(self.proj.inexact))}
            if "task" in info:
                e["task"] = self.model.tix.get(id(info["task"]), 0)
            else:
                e["task"] = 0
            e["working"] = bool(info.get("working", True))
            self.ev.append(e)
        else:
            self.ev.append({"ph": phase, "time": project.time})
        if self.abort_at is not None and phase == self.abort_at[0] and project.time == self.abort_at[1]:
            if phase not in ("bw_exit",):
                raise Abort("%s@%d" % self.abort_at)


def call_recorded(model, fn, abort_at=None, light=False):
    """Run fn() with an observer installed; returns (events, ret)."""
    rec = Recorder(model, abort_at=abort_at, light=light)
    model.project._verif_observer = rec
    ret = "ok"
    try:
        with warnings.catch_warnings():
            warnings.simplefilter("ignore")
            fn()
    except Abort:
        ret = "abort"
    except Exception as e:  # a crash of the library is an observation, judged by TLC
        ret = "exc:" + type(e).__name__
    finally:
        model.project._verif_observer = None
    return rec.ev, ret


def snapshot(model):
    p = Projector(model)
    st = p.state()
    inx = sorted(set(p.inexact))
    lg = p.logs()
    return {"st": st, "lg": lg, "inexact": sorted(set(inx + lg.pop("inexact")))}


def annotate(ev):
    """Bookkeeping indices for the trace specification (positions only, no state):
    base = 1-based position of the step's "presence" event, k = ordinal of an
    "alloc_task" event within its step, nalloc = number of alloc_task events of the step."""
    base = 0
    k = 0
    for i, e in enumerate(ev, 1):
        if e["ph"] == "presence":
            base, k = i, 0
        if e["ph"] == "alloc_task":
            k += 1
        e["base"] = base
        e["k"] = k
    return ev


def run_simulate(model, opts=None, init_state=True, init_log=True, abort_at=None):
    o = dict(model.cfg["opts"])
    if opts:
        o.update(opts)
    kw = dict(
        task_priority_rule=TRULE[o["rule"]],
        absence_time_list=list(o["absL"]),
        perform_auto_task_while_absence_time=o["autoAbs"],
        max_time=o["maxTime"],
        initialize_state_info=init_state,
        initialize_log_info=init_log,
    )
    ev, ret = call_recorded(model, lambda: model.project.simulate(**kw), abort_at=abort_at)
    o2 = copy.deepcopy(o)
    o2["initState"], o2["initLog"] = init_state, init_log
    return {"op": "simulate", "opts": o2, "ev": annotate(ev), "ret": ret, "final": snapshot(model)}


def run_case_simulate(cfg):
    """The basic case: build, simulate once, record."""
    return run_case({"kind": "simulate", "cfg": cfg})


def run_case(spec):
    """Execute one case specification on the real code; returns the case record."""
    cfg = spec["cfg"]
    kind = spec["kind"]
    if kind == "simulate":
        m = Model(cfg)
        runs = [run_simulate(m)]
    elif kind == "sort":
        from . import funs
        c2 = dict(cfg)
        c2["id"] = spec["id"]
        return {"cfg": c2, "runs": [funs.run_sort(spec)], "spec": spec}
    else:
        raise ValueError("unknown case kind %r" % kind)
    return {"cfg": cfg, "runs": runs, "spec": spec}
