"""Drive the real pDESy code along a case and record what the specification needs.

A *case* is {"cfg": ..., "kind": ..., ...}.  The record of a simulate() call is
  {"op": "simulate", "opts": {...}, "pre": lg|None, "ev": [{"ph","st","info"}...],
   "ret": "ok" | "exc:<Type>", "final": {"st","lg"}}
Events are the phase hook's events (PDESY_VERIF=1), each with the complete projected
state, so trace validation never has to guess a variable."""
import copy
import os as _os0
import warnings

_os_environ_get = _os0.environ.get

from .build import Model, RankedTask, TRULE
from .observe import Projector


class Abort(Exception):
    """Raised by the observer to model a fault at a chosen phase/step (C17)."""


class Recorder:
    def __init__(self, model, abort_at=None, light=False):
        self.model = model
        self.proj = Projector(model)
        self.ev = []
        self.abort_at = abort_at  # (phase, time) or None
        self.light = light  # record only phase names (used where no validation is needed)

    def __call__(self, project, phase, info):
        if not self.light:
            e = {"ph": phase, "st": self.proj.state(), "inexact": sorted(set(self.proj.inexact))}
            if "task" in info:
                tasks, _ = self.proj.tasks()
                e["task"] = ([i for i, t in enumerate(tasks, 1) if t is info["task"]] or [0])[0]
            else:
                e["task"] = 0
            e["working"] = bool(info.get("working", True))
            self.ev.append(e)
        else:
            self.ev.append({"ph": phase, "time": project.time})
        if self.abort_at is not None and phase == self.abort_at[0] and project.time == self.abort_at[1]:
            if phase not in ("bw_exit",):
                raise Abort("%s@%d" % self.abort_at)


class CallTimeout(BaseException):
    """An API call of the library did not return within CALL_TIMEOUT_S (e.g. a dependency cycle
    makes the PERT wave propagation loop for ever): recorded as ret = "timeout"."""


CALL_TIMEOUT_S = float(_os_environ_get("VERIF_CALL_TIMEOUT", "30"))


def _on_alarm(signum, frame):
    raise CallTimeout()


# where the last exception that escaped a recorded call was raised ("file.py:function" of the
# innermost frame): known findings about crashes are identified by their call site
LAST_EXC = {"site": ""}


def _raise_site(e):
    # "file.py:function" of every pDESy frame of the traceback, outermost first, joined by " > ",
    # followed by the exception message
    import traceback

    tb = traceback.extract_tb(e.__traceback__)
    frames = ["%s:%s" % (_os.path.basename(fr.filename), fr.name) for fr in tb
              if _os.sep + "pDESy" + _os.sep in fr.filename]
    return " > ".join(frames) + " | " + str(e)[:80]


def call_recorded(model, fn, abort_at=None, light=False):
    """Run fn() with an observer installed; returns (events, ret)."""
    import signal
    import threading

    rec = Recorder(model, abort_at=abort_at, light=light)
    model.project._verif_observer = rec
    ret = "ok"
    timed = threading.current_thread() is threading.main_thread()
    if timed:
        old = signal.signal(signal.SIGALRM, _on_alarm)
        signal.setitimer(signal.ITIMER_REAL, CALL_TIMEOUT_S)
    try:
        with warnings.catch_warnings():
            warnings.simplefilter("ignore")
            fn()
    except Abort:
        ret = "abort"
    except CallTimeout:
        ret = "timeout"
    except Exception as e:  # a crash of the library is an observation, judged by TLC
        ret = "exc:" + type(e).__name__
        LAST_EXC["site"] = _raise_site(e)
    finally:
        if timed:
            signal.setitimer(signal.ITIMER_REAL, 0)
            signal.signal(signal.SIGALRM, old)
        model.project._verif_observer = None
    return rec.ev, ret


def snapshot(model):
    p = Projector(model)
    st = p.state()
    inx = sorted(set(p.inexact))
    lg = p.logs()
    return {"st": st, "lg": lg, "inexact": sorted(set(inx + lg.pop("inexact")))}


def annotate(ev):
    """Bookkeeping indices for the trace specification (positions only, no state):
    base = 1-based position of the step's "presence" event, k = ordinal of an
    "alloc_task" event within its step, nalloc = number of alloc_task events of the step."""
    base = 0
    k = 0
    for i, e in enumerate(ev, 1):
        if e["ph"] == "presence":
            base, k = i, 0
        if e["ph"] == "alloc_task":
            k += 1
        e["base"] = base
        e["k"] = k
    return ev


def run_simulate(model, opts=None, init_state=True, init_log=True, abort_at=None):
    o = dict(model.cfg["opts"])
    if opts:
        o.update(opts)
    kw = dict(
        task_priority_rule=TRULE[o["rule"]],
        absence_time_list=list(o["absL"]),
        perform_auto_task_while_absence_time=o["autoAbs"],
        max_time=o["maxTime"],
        initialize_state_info=init_state,
        initialize_log_info=init_log,
        unit_time=o.get("unit", 1),
    )
    LAST_EXC["site"] = ""
    ev, ret = call_recorded(model, lambda: model.project.simulate(**kw), abort_at=abort_at)
    site = LAST_EXC["site"]
    o2 = copy.deepcopy(o)
    o2["initState"], o2["initLog"] = init_state, init_log
    return {"op": "simulate", "opts": o2, "args": {"cmp": 0, "plainTasks": False}, "obs": {}, "ev": annotate(ev), "ret": ret,
            "exc_site": site, "final": snapshot(model)}


def run_case_simulate(cfg):
    """The basic case: build, simulate once, record."""
    return run_case({"kind": "simulate", "cfg": cfg})


def run_case(spec):
    """Execute one case specification on the real code; returns the case record."""
    cfg = spec["cfg"]
    kind = spec["kind"]
    if kind == "simulate" and spec.get("light"):
        return run_history({"kind": "history", "cfg": cfg, "ops": [{"op": "simulate", "light": True}]})
    if kind == "simulate":
        m = Model(cfg)
        runs = [run_simulate(m)]
    elif kind == "history":
        return run_history(spec)
    elif kind == "subproject":
        return run_subproject(spec)
    elif kind == "report":
        from . import funs
        return {"cfg": {"id": spec["id"]}, "runs": [funs.run_report(spec)], "spec": spec}
    elif kind == "sort":
        from . import funs
        c2 = dict(cfg)
        c2["id"] = spec["id"]
        return {"cfg": c2, "runs": [funs.run_sort(spec)], "spec": spec}
    else:
        raise ValueError("unknown case kind %r" % kind)
    return {"cfg": cfg, "runs": runs, "spec": spec}


# =========================================================================================
# histories: sequences of API operations on one (or a rebuilt / restored) project
# =========================================================================================
import json as _json
import os as _os
import tempfile as _tempfile

from .build import from_project
from .observe import Projector as _Projector


def _struct(model):
    return _Projector(model).structure()


def _json_roundtrip(model, workdir):
    """write_simple_json -> read_simple_json into a fresh project -> write again.
    Returns (new_model, observations)."""
    from pDESy.model.base_project import BaseProject

    obs = {"write_ok": True, "read_ok": True, "fixpoint": False, "xref_ok": False, "err": ""}
    p1 = _os.path.join(workdir, "a.json")
    p2 = _os.path.join(workdir, "b.json")
    try:
        model.project.write_simple_json(p1)
    except Exception as e:
        obs.update(write_ok=False, read_ok=False, err="write:" + type(e).__name__)
        return None, obs
    np_ = BaseProject()
    try:
        np_.read_simple_json(p1)
    except Exception as e:
        obs.update(read_ok=False, err="read:" + type(e).__name__)
        return None, obs
    try:
        np_.write_simple_json(p2)
        with open(p1) as f1, open(p2) as f2:
            obs["fixpoint"] = _json.load(f1) == _json.load(f2)
    except Exception as e:
        obs["err"] = "rewrite:" + type(e).__name__
    m2 = from_project(model.cfg, np_)
    obs["xref_ok"] = _xrefs_ok(m2)
    return m2, obs


def _xrefs_ok(m):
    """Every cross reference of the restored project is an object of that project."""
    p = m.project
    tasks = {id(t) for t in p.workflow.task_list}
    comps = {id(c) for c in p.product.component_list}
    teams = {id(t) for t in p.organization.team_list}
    wps = {id(w) for w in p.organization.workplace_list}
    workers = {id(w) for t in p.organization.team_list for w in t.worker_list}
    facs = {id(f) for w in p.organization.workplace_list for f in w.facility_list}
    try:
        for t in p.workflow.task_list:
            ok = (all(id(x) in tasks for x, _ in t.input_task_list)
                  and all(id(x) in tasks for x, _ in t.output_task_list)
                  and all(id(x) in teams for x in t.allocated_team_list)
                  and all(id(x) in wps for x in t.allocated_workplace_list)
                  and (t.target_component is None or id(t.target_component) in comps)
                  and all(id(x) in workers for x in t.allocated_worker_list)
                  and all(id(x) in facs for x in t.allocated_facility_list))
            if not ok:
                return False
        for c in p.product.component_list:
            ok = (all(id(x) in comps for x in c.parent_component_list)
                  and all(id(x) in comps for x in c.child_component_list)
                  and all(id(x) in tasks for x in c.targeted_task_list)
                  and (c.placed_workplace is None or id(c.placed_workplace) in wps))
            if not ok:
                return False
        for t in p.organization.team_list:
            if not all(id(x) in tasks for x in t.targeted_task_list):
                return False
            for w in t.worker_list:
                if not all(id(x) in tasks for x in w.assigned_task_list):
                    return False
        for w in p.organization.workplace_list:
            if not (all(id(x) in tasks for x in w.targeted_task_list)
                    and all(id(x) in comps for x in w.placed_component_list)):
                return False
            for f in w.facility_list:
                if not all(id(x) in tasks for x in f.assigned_task_list):
                    return False
    except Exception:
        return False
    return True


def run_history(spec):
    """spec: {"kind": "history", "cfg", "ops": [...], "plain": bool}.  Every op yields one run
    record; `final` is the snapshot after the op, so consecutive runs chain."""
    cfg = spec["cfg"]
    plain = bool(spec.get("plain"))
    m = Model(cfg, plain=plain)
    runs = []
    tmp = None
    changed_cfg = False
    base_opts = dict(cfg["opts"])
    for op in spec["ops"]:
        kind = op["op"]
        o = dict(base_opts)
        o.update(op.get("opts") or {})
        o["initState"] = bool(op.get("initState", True))
        o["initLog"] = bool(op.get("initLog", True))
        rec = {"op": kind, "opts": o, "args": {k: v for k, v in op.items() if k not in ("op", "opts")},
               "ev": [], "ret": "ok", "obs": {}}
        rec["args"].setdefault("cmp", 0)
        rec["args"]["plainTasks"] = not isinstance(m.tasks[0], RankedTask) if m.tasks and m.tasks[0] is not None else True
        if "ranks" in op:
            # another visiting order of the internal sets: the model of this run has these ranks
            for t, r in zip(m.tasks, op["ranks"]):
                t._verif_rank = r
            cfg = _json.loads(_json.dumps(cfg))
            for tc, r in zip(cfg["tasks"], op["ranks"]):
                tc["rank"] = r
            m.cfg = cfg
            changed_cfg = True
        light = bool(op.get("light"))
        LAST_EXC["site"] = ""
        if kind == "rebuild":
            m = Model(cfg, plain=bool(op.get("plain", plain)))   # (of the possibly edited cfg)
        elif kind == "snapshot":
            pass
        elif kind == "add_worker_task":
            # the user extends the model between two runs: a new task and, in the last team, a new
            # worker who is the only one skilled for it
            cfg = _json.loads(_json.dumps(cfg))
            Q = cfg["Q"]
            nt, nw = len(cfg["tasks"]) + 1, len(cfg["workers"]) + 1
            from . import gen as _gen
            tc = _gen.task(work=2 * Q, teams=[cfg["nTeam"]], rank=max(t["rank"] for t in cfg["tasks"]) + 1, Q=Q)
            cfg["tasks"].append(tc)
            for w in cfg["workers"]:
                w["skill"].append(-1)
            for f in cfg["facs"]:
                f["skill"].append(-1)
            wc = _gen.worker(team=cfg["nTeam"], skill=[-1] * (nt - 1) + [Q], fskill=[-1] * len(cfg["facs"]), cost=1)
            cfg["workers"].append(wc)
            m.cfg = cfg
            task = m.make_task(nt, tc)
            m.project.workflow.append_child_task(task)
            m.tasks.append(task)
            wk = m.make_worker(nw, wc)
            m.teams[-1].add_worker(wk)
            m.teams[-1].append_targeted_task(task)
            m.workers.append(wk)
            m.reindex()
            changed_cfg = True
        elif kind == "add_team_target":
            # the user edits the organization between two runs: team `team` now also targets `task`
            tm, ti = op["team"], op["task"]
            m.teams[tm - 1].append_targeted_task(m.tasks[ti - 1])
            cfg = _json.loads(_json.dumps(cfg))
            cfg["tasks"][ti - 1]["teams"].append(tm)
            m.cfg = cfg
            changed_cfg = True
        elif kind == "edit_abs":
            # the user edits the absence calendar of one worker / facility between two runs
            cfg = _json.loads(_json.dumps(cfg))
            if op["who"] == "worker":
                m.workers[op["i"] - 1].absence_time_list = list(op["L"])
                cfg["workers"][op["i"] - 1]["abs"] = list(op["L"])
            else:
                m.facs[op["i"] - 1].absence_time_list = list(op["L"])
                cfg["facs"][op["i"] - 1]["abs"] = list(op["L"])
            m.cfg = cfg
            changed_cfg = True
        elif kind == "add_dep":
            # the user edits the workflow between two runs: a new dependency pred -> succ
            pr, su, kd = op["dep"]
            from .build import DEP
            m.tasks[su - 1].append_input_task(m.tasks[pr - 1], task_dependency_mode=DEP[kd])
            cfg = _json.loads(_json.dumps(cfg))
            cfg["deps"].append([pr, su, kd])
            m.cfg = cfg
            changed_cfg = True
        elif kind == "simulate":
            kw = dict(task_priority_rule=TRULE[o["rule"]], absence_time_list=list(o["absL"]),
                      perform_auto_task_while_absence_time=o["autoAbs"], max_time=o["maxTime"],
                      initialize_state_info=o["initState"], initialize_log_info=o["initLog"])
            if op.get("defaultAbs") and not o["absL"]:
                del kw["absence_time_list"]      # rely on the library's default argument
            if op.get("defaults"):
                # leave every option that has the library's default value to the library
                if not o["absL"]:
                    kw.pop("absence_time_list", None)
                if not o["autoAbs"]:
                    kw.pop("perform_auto_task_while_absence_time", None)
                if o["rule"] == "TSLACK":
                    kw.pop("task_priority_rule", None)
                if o["initState"] and o["initLog"]:
                    kw.pop("initialize_state_info", None)
                    kw.pop("initialize_log_info", None)
            ev, ret = call_recorded(m, lambda: m.project.simulate(**kw), light=light)
            rec["ev"], rec["ret"] = ([] if light else annotate(ev)), ret
        elif kind == "backward":
            kw = dict(task_priority_rule=TRULE[o["rule"]], absence_time_list=list(o["absL"]),
                      perform_auto_task_while_absence_time=o["autoAbs"], max_time=o["maxTime"],
                      considering_due_time_of_tail_tasks=bool(op.get("due")),
                      reverse_log_information=bool(op.get("reverse", True)))
            rec["args"]["due"] = bool(op.get("due"))
            rec["args"]["reverse"] = bool(op.get("reverse", True))
            s0, i0 = _struct(m)
            ab = tuple(op["abortAt"]) if op.get("abortAt") else None
            ev, ret = call_recorded(m, lambda: m.project.backward_simulate(**kw), abort_at=ab, light=light)
            s1, i1 = _struct(m)
            rec["ev"], rec["ret"] = ([] if light else annotate(ev)), ret
            rec["obs"] = {"struct_before": s0, "struct_after": s1, "same_lists": i0 == i1,
                          "nphases": len(ev)}
        elif kind == "initialize":
            rec["args"]["state"] = bool(op.get("state", True))
            rec["args"]["log"] = bool(op.get("log", True))
            ev, ret = call_recorded(m, lambda: m.project.initialize(state_info=rec["args"]["state"],
                                                                    log_info=rec["args"]["log"]))
            rec["ret"] = ret
        elif kind == "reverse":
            ev, rec["ret"] = call_recorded(m, lambda: m.project.reverse_log_information())
        elif kind == "remove_absence":
            ev, rec["ret"] = call_recorded(m, lambda: m.project.remove_absence_time_list())
        elif kind == "insert_absence":
            L = list(op["L"])
            if op.get("rel"):
                # indices relative to the current end of the logs (0 = first step beyond the end)
                # (a position before step 0 is not a step index: dropped, not passed on)
                L = [m.project.time + x for x in L if m.project.time + x >= 0]
                rec["args"]["L"] = L
            ev, rec["ret"] = call_recorded(m, lambda: m.project.insert_absence_time_list(L))
        elif kind == "saveload":
            if tmp is None:
                tmp = _tempfile.mkdtemp(prefix="pdesy-json-")
            from .observe import extract_params
            before = extract_params(m)
            m2, obs = _json_roundtrip(m, tmp)
            obs["params_before"] = before
            obs["params_after"] = extract_params(m2) if m2 is not None else {k: "" for k in before}
            rec["obs"] = obs
            if m2 is not None:
                m = m2
            else:
                rec["ret"] = "exc:" + obs["err"]
        elif kind == "graph":
            # the structural graph of the project (get_networkx_graph), projected to index names
            vw, vf = bool(op.get("workers")), bool(op.get("facilities"))
            rec["args"]["workers"], rec["args"]["facilities"] = vw, vf
            box = {}

            def _graph():
                box["G"] = m.project.get_networkx_graph(view_workers=vw, view_facilities=vf)

            ev, rec["ret"] = call_recorded(m, _graph)
            rec["obs"] = _graph_obs(m, box.get("G"))
        else:
            raise ValueError("unknown op %r" % kind)
        rec["final"] = snapshot(m)
        rec["exc_site"] = LAST_EXC["site"] if str(rec["ret"]).startswith("exc:") else ""
        if changed_cfg:
            rec["cfg"] = cfg
        runs.append(rec)
        if rec["ret"] == "timeout":
            break      # the model is in an arbitrary state; later operations would only hang again
    if tmp is not None:
        import shutil
        shutil.rmtree(tmp, ignore_errors=True)
    _reset_default_arguments()
    return {"cfg": spec["cfg"], "runs": runs, "spec": spec}


def _graph_obs(m, G):
    """Nodes and edges of a networkx graph named by the specification's indices; an object that is
    not one of the model's own objects is named "?" (so a graph over foreign objects cannot match)."""
    if G is None:
        return {"nodes": [], "edges": []}
    names = {}
    for pre, objs in (("T", m.tasks), ("C", m.comps), ("M", m.teams), ("P", m.wps),
                      ("W", m.workers), ("F", m.facs)):
        for i, o in enumerate(objs, 1):
            if o is not None:
                names[id(o)] = "%s%d" % (pre, i)

    def nm(o):
        return names.get(id(o), "?")

    return {"nodes": sorted(nm(n) for n in G.nodes()),
            "edges": sorted([nm(a), nm(b)] for a, b in G.edges())}


def _reset_default_arguments():
    """Harness hygiene: if a case managed to mutate a mutable default argument of simulate /
    backward_simulate (a leak that C09 judges inside the case), empty it again so that the leak
    cannot contaminate the next case run by this worker process."""
    from pDESy.model.base_project import BaseProject

    for fn in (BaseProject.simulate, BaseProject.backward_simulate):
        for d in fn.__defaults__ or ():
            if isinstance(d, list) and d:
                del d[:]


# =========================================================================================
# sub-project tasks (C20)
# =========================================================================================
def run_subproject(spec):
    """spec: {"kind": "subproject", "cfg": parent cfg (task `sub` is the sub-project task; its work
    and rate are filled in from what the library configures), "child": child cfg, "childOpts",
    "su", "pu" (unit seconds), "flag" (remove absence steps), "sub": index}."""
    import datetime
    import shutil

    from pDESy.model.base_subproject_task import BaseSubProjectTask

    tmp = _tempfile.mkdtemp(prefix="pdesy-sub-")
    try:
        child = spec["child"]
        cm = Model(child, plain=True)
        cm.project.unit_timedelta = datetime.timedelta(seconds=spec["su"])
        runs = []
        co = dict(child["opts"])
        co.update(spec.get("childOpts") or {})
        if spec.get("childSimulated", True):
            kw = dict(task_priority_rule=TRULE[co["rule"]], absence_time_list=list(co["absL"]),
                      perform_auto_task_while_absence_time=co["autoAbs"], max_time=co["maxTime"])
            call_recorded(cm, lambda: cm.project.simulate(**kw), light=True)
        path = _os.path.join(tmp, "child.json")
        cm.project.write_simple_json(path)
        csnap = snapshot(cm)
        i = spec["sub"]
        parent_cfg = _json.loads(_json.dumps(spec["cfg"]))
        pm = Model(parent_cfg)
        st = pm.tasks[i - 1]
        assert isinstance(st, BaseSubProjectTask)
        before = (st.default_work_amount, st.unit_timedelta, st.work_amount_progress_of_unit_step_time,
                  st.remaining_work_amount, st.file_path)
        warned = False
        ret = "ok"
        with warnings.catch_warnings(record=True) as wlist:
            warnings.simplefilter("always")
            try:
                st.set_all_attributes_from_json(file_path=path, remove_absence_time_list=bool(spec["flag"]))
            except Exception as e:
                ret = "exc:" + type(e).__name__
            warned = len(wlist) > 0
        after = (st.default_work_amount, st.unit_timedelta, st.work_amount_progress_of_unit_step_time,
                 st.remaining_work_amount, st.file_path)
        configured = after != before
        pu = datetime.timedelta(seconds=spec["pu"])
        try:
            usec = int(st.unit_timedelta.total_seconds())
        except Exception:
            usec = -1
        D = st.default_work_amount
        rec1 = {"op": "subconfig", "opts": parent_cfg["opts"], "args": {"cmp": 0, "flag": bool(spec["flag"])},
                "ev": [], "ret": ret,
                "obs": {"warned": warned, "unchanged": not configured,
                        "D": int(D) if float(D).is_integer() else -1, "unitS": usec,
                        "childTime": csnap["lg"]["time"], "childStatus": csnap["lg"]["status"],
                        "childAbs": csnap["lg"]["absL"], "su": spec["su"], "pu": spec["pu"]},
                "final": csnap}
        runs.append(rec1)
        # a second task configured from the same, unchanged file with the other setting of the flag
        st2 = BaseSubProjectTask("other")
        ret2 = "ok"
        with warnings.catch_warnings(record=True) as wlist2:
            warnings.simplefilter("always")
            try:
                st2.set_all_attributes_from_json(file_path=path, remove_absence_time_list=not bool(spec["flag"]))
            except Exception as e:
                ret2 = "exc:" + type(e).__name__
        D2 = st2.default_work_amount
        try:
            usec2 = int(st2.unit_timedelta.total_seconds())
        except Exception:
            usec2 = -1
        cfg2 = csnap["lg"]["status"] == "SUCCESS"
        rec2 = _json.loads(_json.dumps(rec1))
        rec2["args"]["flag"] = not bool(spec["flag"])
        rec2["ret"] = ret2
        rec2["obs"].update({"warned": len(wlist2) > 0, "unchanged": (not cfg2) and D2 == 10.0,
                            "D": int(D2) if float(D2).is_integer() else -1, "unitS": usec2})
        if cfg2:
            rec2["obs"]["unchanged"] = False if D2 != 10.0 or usec2 != 60 else rec2["obs"]["unchanged"]
        runs.append(rec2)
        if configured and ret == "ok":
            pm.project.unit_timedelta = pu
            st.set_work_amount_progress_of_unit_step_time(pm.project.unit_timedelta)
            # the parent cfg the specification sees: work and rate as the library configured them
            Q = parent_cfg["Q"]
            rate = st.work_amount_progress_of_unit_step_time * Q
            work = st.default_work_amount * Q
            parent_cfg["tasks"][i - 1]["work"] = int(round(work))
            parent_cfg["tasks"][i - 1]["rate"] = int(round(rate))
            exact = abs(rate - round(rate)) < 1e-7 and abs(work - round(work)) < 1e-7
            pm.cfg = parent_cfg
            r = run_simulate(pm)
            r["args"]["sub"] = i
            r["args"]["expectSteps"] = -(-rec1["obs"]["D"] * spec["su"] // spec["pu"])
            r["obs"] = {"exactRate": exact}
            runs.append(r)
        return {"cfg": parent_cfg, "runs": runs, "spec": spec}
    finally:
        shutil.rmtree(tmp, ignore_errors=True)
