"""cfg (the specification's static model record, see spec/PdesyCfg.tla) -> pDESy objects."""
import datetime

from . import use_repo

use_repo()

from pDESy.model.base_component import BaseComponent  # noqa: E402
from pDESy.model.base_facility import BaseFacility  # noqa: E402
from pDESy.model.base_organization import BaseOrganization  # noqa: E402
from pDESy.model.base_priority_rule import (  # noqa: E402
    ResourcePriorityRuleMode,
    TaskPriorityRuleMode,
    WorkplacePriorityRuleMode,
)
from pDESy.model.base_product import BaseProduct  # noqa: E402
from pDESy.model.base_project import BaseProject  # noqa: E402
from pDESy.model.base_subproject_task import BaseSubProjectTask  # noqa: E402
from pDESy.model.base_task import BaseTask, BaseTaskDependency  # noqa: E402
from pDESy.model.base_team import BaseTeam  # noqa: E402
from pDESy.model.base_worker import BaseWorker  # noqa: E402
from pDESy.model.base_workflow import BaseWorkflow  # noqa: E402
from pDESy.model.base_workplace import BaseWorkplace  # noqa: E402

DEP = {
    "FS": BaseTaskDependency.FS,
    "SS": BaseTaskDependency.SS,
    "FF": BaseTaskDependency.FF,
    "SF": BaseTaskDependency.SF,
}
TRULE = {m.name: m for m in TaskPriorityRuleMode}
RRULE = {m.name: m for m in ResourcePriorityRuleMode}
PRULE = {m.name: m for m in WorkplacePriorityRuleMode}

INIT_DT = datetime.datetime(2020, 4, 1, 8, 0, 0)


class RankedTask(BaseTask):
    """BaseTask whose hash is a rank chosen by the specification (cfg.tasks[i].rank).

    CPython iterates a small set of objects with distinct small integer hashes in
    ascending hash order, so this forces the visiting order of pDESy's internal
    `set(...)` collections without touching pDESy."""

    def __hash__(self):
        return self._verif_rank


class Model:
    """The built project plus index maps (1-based indices of the specification)."""

    def __init__(self, cfg, plain=False):
        self.cfg = cfg
        Q = cfg["Q"]
        self.Q = Q
        self.tasks, self.workers, self.facs = [], [], []
        self.wps, self.comps, self.teams = [], [], []
        self.plain = plain
        for i, t in enumerate(cfg["tasks"], 1):
            self.tasks.append(self.make_task(i, t))
        for p, s, k in cfg["deps"]:
            self.tasks[s - 1].append_input_task(self.tasks[p - 1], task_dependency_mode=DEP[k])
        for i, c in enumerate(cfg["comps"], 1):
            # "watch": tasks handed to the constructor - the component follows their states but
            # the tasks get no target_component back-reference
            watch = [self.tasks[k - 1] for k in c.get("watch", [])]
            self.comps.append(
                BaseComponent("c%d" % i, ID="".join(["C", "%d" % i]), space_size=c["space"] / 2,
                              **({"targeted_task_list": watch} if watch else {}))
            )
        for i, c in enumerate(cfg["comps"], 1):
            for ch in c["children"]:
                self.comps[i - 1].append_child_component(self.comps[ch - 1])
        for i, t in enumerate(cfg["tasks"], 1):
            if t["comp"]:
                self.comps[t["comp"] - 1].append_targeted_task(self.tasks[i - 1])
        # organization: workers are numbered team by team, facilities workplace by workplace
        nteam = cfg["nTeam"]
        for j in range(1, nteam + 1):
            self.teams.append(BaseTeam("team%d" % j, ID="".join(["M", "%d" % j])))
        for j in range(2, nteam + 1):
            self.teams[j - 1].set_parent_team(self.teams[0])      # organisational tree (not simulated)
        for i, f in enumerate(cfg["facs"], 1):
            fac = BaseFacility(
                "f%d" % f.get("alias", i),
                ID="".join(["F", "%d" % i]),
                cost_per_time=float(f["cost"]),
                solo_working=f["solo"],
                absence_time_list=list(f["abs"]),
            )
            fac.workamount_skill_mean_map = {
                "t%d" % k: float(s) for k, s in enumerate(f["skill"], 1) if s >= 0
            }
            self.facs.append(fac)
        for j, w in enumerate(cfg["wps"], 1):
            wp = BaseWorkplace(
                "p%d" % j, ID="".join(["P", "%d" % j]), max_space_size=w["cap"] / 2
            )
            for i, f in enumerate(cfg["facs"], 1):
                if f["wp"] == j:
                    wp.add_facility(self.facs[i - 1])
            self.wps.append(wp)
        for j, w in enumerate(cfg["wps"], 1):
            for src in w["inputs"]:
                self.wps[j - 1].append_input_workplace(self.wps[src - 1])
        for j in range(2, len(self.wps) + 1):
            self.wps[j - 1].set_parent_workplace(self.wps[0])
        for i, w in enumerate(cfg["workers"], 1):
            wk = self.make_worker(i, w)
            self.teams[w["team"] - 1].add_worker(wk)
            self.workers.append(wk)
        for i, t in enumerate(cfg["tasks"], 1):
            task = self.tasks[i - 1]
            for tm in t["teams"]:
                if cfg.get("oneSidedTeams"):
                    # the team targets the task, the task does not list the team (constructor-style link)
                    self.teams[tm - 1].targeted_task_list.append(task)
                else:
                    self.teams[tm - 1].append_targeted_task(task)
            for wp in t["wps"]:
                self.wps[wp - 1].append_targeted_task(task)
            if t["fixWon"]:
                task.fixing_allocating_worker_id_list = ["".join(["W", "%d" % k]) for k in t["fixW"]]
            if t["fixFon"]:
                task.fixing_allocating_facility_id_list = [
                    "".join(["F", "%d" % k]) for k in t["fixF"]
                ]
        if cfg.get("assignAfter"):
            # the user sets the numbers as attributes after constructing the objects
            for c, cc in zip(self.comps, cfg["comps"]):
                c.space_size = cc["space"] / 2
            for p, pc in zip(self.wps, cfg["wps"]):
                p.max_space_size = pc["cap"] / 2
            for t, tc in zip(self.tasks, cfg["tasks"]):
                t.due_time = tc["due"]
            for w, wc in zip(self.workers, cfg["workers"]):
                w.cost_per_time = float(wc["cost"])
            for f, fc in zip(self.facs, cfg["facs"]):
                f.cost_per_time = float(fc["cost"])
        self.project = BaseProject(
            init_datetime=INIT_DT,
            unit_timedelta=datetime.timedelta(minutes=1),
            product=BaseProduct(list(self.comps)),
            workflow=BaseWorkflow(list(self.tasks)),
            organization=BaseOrganization(team_list=list(self.teams), workplace_list=list(self.wps)),
        )
        self.reindex()

    def make_task(self, i, t):
        Q = self.cfg["Q"]
        cls = BaseTask if self.plain else RankedTask
        kw = dict(
            name="t%d" % t.get("alias", i),       # several tasks may carry the same name
            ID="".join(["T", "%d" % i]),
            default_work_amount=t["work"] / Q,
            default_progress=t["prog"] / 4,
            auto_task=t["auto"],
            need_facility=t["needF"],
            work_amount_progress_of_unit_step_time=t["rate"] / Q,
            due_time=t["due"],
            worker_priority_rule=RRULE[t["wrule"]],
            facility_priority_rule=RRULE[t["frule"]],
            workplace_priority_rule=PRULE[t["prule"]],
        )
        task = BaseSubProjectTask(**kw) if t.get("sub") else cls(**kw)
        task._verif_rank = t["rank"]
        return task

    def make_worker(self, i, w):
        Q = self.cfg["Q"]
        wk = BaseWorker(
            "w%d" % i,
            ID="".join(["W", "%d" % i]),
            cost_per_time=float(w["cost"]),
            solo_working=w["solo"],
            absence_time_list=list(w["abs"]),
            main_workplace_id=("".join(["P", "%d" % w["mainwp"]]) if w["mainwp"] else None),
        )
        wk.workamount_skill_mean_map = {"t%d" % k: s / Q for k, s in enumerate(w["skill"], 1) if s >= 0}
        wk.facility_skill_map = {"f%d" % k: float(s) for k, s in enumerate(w["fskill"], 1) if s >= 0}
        return wk

    def reindex(self):
        """(Re)build object -> 1-based index maps from the project as it is now."""
        self.tix = {id(t): i for i, t in enumerate(self.tasks, 1)}
        self.wix = {id(w): i for i, w in enumerate(self.workers, 1)}
        self.fix = {id(f): i for i, f in enumerate(self.facs, 1)}
        self.pix = {id(p): i for i, p in enumerate(self.wps, 1)}
        self.cix = {id(c): i for i, c in enumerate(self.comps, 1)}

    def sim_kwargs(self, opts=None):
        o = dict(self.cfg["opts"])
        if opts:
            o.update(opts)
        return dict(
            task_priority_rule=TRULE[o["rule"]],
            absence_time_list=list(o["absL"]),
            perform_auto_task_while_absence_time=o["autoAbs"],
            max_time=o["maxTime"],
        )


def from_project(cfg, project):
    """Wrap an existing (e.g. JSON-restored) project in a Model: objects are looked up by ID."""
    m = Model.__new__(Model)
    m.cfg, m.Q, m.project = cfg, cfg["Q"], project

    def by_id(objs, prefix, n):
        d = {o.ID: o for o in objs}
        return [d.get("%s%d" % (prefix, i)) for i in range(1, n + 1)]

    m.tasks = by_id(project.workflow.task_list, "T", len(cfg["tasks"]))
    m.comps = by_id(project.product.component_list, "C", len(cfg["comps"]))
    m.teams = by_id(project.organization.team_list, "M", cfg["nTeam"])
    m.wps = by_id(project.organization.workplace_list, "P", len(cfg["wps"]))
    m.workers = by_id(
        [w for t in project.organization.team_list for w in t.worker_list], "W", len(cfg["workers"])
    )
    m.facs = by_id(
        [f for p in project.organization.workplace_list for f in p.facility_list],
        "F",
        len(cfg["facs"]),
    )
    m.reindex()
    return m
