"""python -m harness.replay <replay file>: re-run the recorded failing case on the current
/repo tree, re-validate it with TLC and print what fails now (exit 1 if the clause still fails)."""
import json
import sys

from . import use_repo

use_repo()

from . import drive, tlc  # noqa: E402


def main():
    payload = json.load(open(sys.argv[1]))
    prop = payload["property"]
    case = drive.run_case(payload["case"])
    res = tlc.validate_traces([case], props=[prop], shards=1)
    fails = [f for f in res["fails"] if f["clause"].startswith(prop + ".")]
    print(json.dumps({"property": prop, "recorded_clause": payload["clause"],
                      "fails_now": fails[:10], "positions": res["positions"],
                      "ret": [r.get("ret") for r in case["runs"]],
                      "observed": [(r["final"]["lg"]["ts"] if "final" in r else {k: r.get(k) for k in ("fn", "mode", "inp", "out")})
                                   for r in case["runs"]]}, indent=1))
    if any(f["clause"] == payload["clause"] for f in fails):
        print("VIOLATION property=%s replay=%s" % (prop, sys.argv[1]))
        return 1
    return 0


if __name__ == "__main__":
    sys.exit(main())
