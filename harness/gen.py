"""Seeded random configurations beyond the exhaustive bounds of spec/PdesyFamilies.tla.

The exhaustive families are enumerated by TLC (spec/Gen_*.tla); this module only widens
them with larger random models (DESIGN §3.3).  Everything is a function of the seed."""
import random

TRULES = ["TSLACK", "EST", "SPT", "LPT", "FIFO", "LRPT", "SRPT", "LWRPT", "SWRPT"]
RRULES = ["MW", "SSP", "VC", "HSV"]
PRULES = ["FSS", "SSP"]
KINDS = ["FS", "SS", "FF", "SF"]


def task(work=2, prog=0, auto=False, rate=None, needF=False, comp=0, teams=(1,), wps=(),
         fixW=None, fixF=None, wrule="SSP", frule="SSP", prule="FSS", due=-1, rank=0, Q=1):
    return {
        "work": work, "prog": prog, "auto": auto, "rate": Q if rate is None else rate,
        "needF": needF, "comp": comp, "teams": list(teams), "wps": list(wps),
        "fixWon": fixW is not None, "fixW": list(fixW or []),
        "fixFon": fixF is not None, "fixF": list(fixF or []),
        "wrule": wrule, "frule": frule, "prule": prule, "due": due, "rank": rank, "sub": False,
    }


def worker(team=1, skill=(), fskill=(), cost=1, solo=False, abs=(), mainwp=0):
    # absence lists are kept in the order given (the library must not rely on them being sorted)
    return {"team": team, "skill": list(skill), "fskill": list(fskill), "cost": cost,
            "solo": solo, "abs": list(abs), "mainwp": mainwp}


def facility(wp=1, skill=(), cost=1, solo=False, abs=()):
    return {"wp": wp, "skill": list(skill), "cost": cost, "solo": solo, "abs": list(abs)}


def opts(absL=(), autoAbs=False, rule="TSLACK", maxTime=40):
    return {"absL": list(absL), "autoAbs": autoAbs, "rule": rule, "maxTime": maxTime}


def mkcfg(cid, Q, tasks, deps, nTeam, workers, facs=(), wps=(), comps=(), o=None):
    return {"id": cid, "Q": Q, "tasks": list(tasks), "deps": [list(d) for d in deps], "nTeam": nTeam,
            "workers": list(workers), "facs": list(facs), "wps": list(wps), "comps": list(comps),
            "opts": o or opts()}


def rand_cfg(rng, cid, nT=(2, 5), nW=(1, 4), kinds=KINDS, facilities=True, components=True,
             nested=True, absences=True, rules=True, autos=True, maxTime=40, multi_task_comp=True):
    Q = rng.choice([1, 2])
    nt = rng.randint(*nT)
    nw = rng.randint(*nW)
    nteam = rng.randint(1, min(2, nw))
    use_fac = facilities and rng.random() < 0.5
    use_comp = use_fac or (components and rng.random() < 0.4)
    nwp = rng.randint(1, 3) if use_comp else 0
    nf = 0
    facs = []
    wps = []
    if nwp:
        for j in range(1, nwp + 1):
            k = rng.randint(0, 2) if use_fac else 0
            for _ in range(k):
                facs.append(facility(wp=j, skill=[rng.choice([-1, 0, 1, 1, 2]) for _ in range(nt)],
                                     cost=rng.choice([0, 1, 3]), solo=rng.random() < 0.15,
                                     abs=(rng.sample(range(0, 6), rng.randint(0, 2)) if absences and rng.random() < 0.3 else ())))
            wps.append({"cap": rng.choice([2, 2, 3, 4]), "inputs": []})
        for j in range(2, nwp + 1):
            if rng.random() < 0.3:
                wps[j - 1]["inputs"] = sorted(rng.sample(range(1, j), rng.randint(1, j - 1)))
        nf = len(facs)
    ncomp = rng.randint(1, 3) if use_comp else 0
    comps = [{"space": rng.choice([1, 2, 2]), "children": []} for _ in range(ncomp)]
    if nested and ncomp >= 2 and rng.random() < 0.4:
        comps[0]["children"] = list(range(2, ncomp + 1)) if rng.random() < 0.5 else [2]
        if ncomp >= 3 and rng.random() < 0.3:
            comps[1]["children"] = [3]          # component 3 has two parents
    tasks = []
    order = list(range(nt))
    rng.shuffle(order)
    used_comp = set()
    for i in range(nt):
        auto = autos and rng.random() < 0.15
        comp = 0
        if ncomp and rng.random() < 0.8:
            comp = rng.randint(1, ncomp)
            if not multi_task_comp and comp in used_comp:
                comp = 0
            used_comp.add(comp)
        needF = bool(use_fac and comp and not auto and rng.random() < 0.6)
        work = rng.choice([0, 1, 2, 2, 3, 4]) * (1 if Q == 1 else rng.choice([1, 2]))
        prog = rng.choice([0, 0, 0, 0, 2, 4]) if (work * 2) % 4 == 0 else rng.choice([0, 0, 0, 4])
        tw = sorted(rng.sample(range(1, nwp + 1), rng.randint(1, nwp))) if comp and nwp else []
        rng.shuffle(tw)
        tasks.append(task(
            work=work, prog=prog, auto=auto, rate=rng.choice([1, Q, Q]), needF=needF, comp=comp,
            teams=sorted(rng.sample(range(1, nteam + 1), rng.randint(1, nteam))) if rng.random() < 0.9 else [],
            wps=tw,
            fixW=(sorted(rng.sample(range(1, nw + 1), rng.randint(1, nw))) if rng.random() < 0.1 else None),
            fixF=(sorted(rng.sample(range(1, nf + 1), rng.randint(1, nf))) if nf and rng.random() < 0.1 else None),
            wrule=rng.choice(RRULES) if rules else "SSP",
            frule=rng.choice(["SSP", "VC", "HSV"]) if rules else "SSP",
            prule=rng.choice(PRULES) if rules else "FSS",
            due=rng.choice([-1, 3, 5, 9]), rank=order[i], Q=Q))
    deps = []
    for s in range(2, nt + 1):
        for p in range(1, s):
            if rng.random() < 0.35:
                deps.append([p, s, rng.choice(kinds)])
    rng.shuffle(deps)
    # random topological relabelling so that task_list order is not a topological order
    perm = list(range(1, nt + 1))
    rng.shuffle(perm)
    deps = [[perm[p - 1], perm[s - 1], k] for p, s, k in deps]
    tasks2 = [None] * nt
    for i in range(nt):
        tasks2[perm[i] - 1] = tasks[i]
    tasks = tasks2
    workers = []
    teams = sorted(rng.choice(range(1, nteam + 1)) for _ in range(nw))
    for i in range(nw):
        workers.append(worker(
            team=teams[i], skill=[rng.choice([-1, 0, 1, 1, 2, 2]) * (1 if Q == 1 else rng.choice([1, 2])) if True else 0 for _ in range(nt)],
            fskill=[rng.choice([-1, 0, 1, 1]) for _ in range(nf)], cost=rng.choice([0, 1, 3]),
            solo=rng.random() < 0.15,
            abs=(rng.sample(range(0, 8), rng.randint(0, 3)) if absences and rng.random() < 0.3 else ()),
            mainwp=(rng.randint(1, nwp) if nwp and rng.random() < 0.4 else 0)))
    for w in workers:
        w["skill"] = [max(s, -1) for s in w["skill"]]
    o = opts(absL=(rng.sample(range(0, 10), rng.randint(0, 3)) if absences and rng.random() < 0.4 else ()),
             autoAbs=rng.random() < 0.5, rule=rng.choice(TRULES) if rules else "TSLACK", maxTime=maxTime)
    return mkcfg(cid, Q, tasks, deps, nteam, workers, facs, wps, comps, o)


def rand_family(seed, n, prefix="R", **kw):
    rng = random.Random(seed)
    return [rand_cfg(rng, "%s%d" % (prefix, i), **kw) for i in range(n)]
