"""Self-test of the binding: a recorded trace is accepted; the same trace with one field
corrupted, one event dropped or one log entry flipped is rejected with the expected clause."""
import copy
import sys

from . import use_repo

use_repo()

from . import drive, gen, tlc  # noqa: E402


def main():
    cfg = gen.mkcfg("selftest", 1,
                    [gen.task(work=2, rank=0), gen.task(work=3, rank=1), gen.task(work=1, rank=2)],
                    [[1, 2, "FS"], [1, 3, "SS"]], 1,
                    [gen.worker(skill=[1, 1, 1], cost=2), gen.worker(skill=[0, 2, 1], cost=1)],
                    o=gen.opts(absL=[1], maxTime=20))
    good = drive.run_case({"kind": "simulate", "cfg": cfg})
    cases = [good]
    # 1. corrupt one field of one recorded event
    c1 = copy.deepcopy(good)
    c1["cfg"]["id"] = "tamper-field"
    for e in c1["runs"][0]["ev"]:
        if e["ph"] == "performed" and "WORKING" in e["st"]["ts"]:
            e["st"]["rem"][e["st"]["ts"].index("WORKING")] += 1
            break
    # 2. drop one event
    c2 = copy.deepcopy(good)
    c2["cfg"]["id"] = "tamper-drop"
    idx = [i for i, e in enumerate(c2["runs"][0]["ev"]) if e["ph"] == "started"][1]
    del c2["runs"][0]["ev"][idx]
    drive.annotate(c2["runs"][0]["ev"])
    # 3. flip one log entry
    c3 = copy.deepcopy(good)
    c3["cfg"]["id"] = "tamper-log"
    c3["runs"][0]["final"]["lg"]["ts"][0][1] = "NONE"
    res = tlc.validate_traces([good, c1, c2, c3], props=["C01", "C02", "C08"], shards=1)
    by = {}
    for f in res["fails"]:
        by.setdefault(f["case"], set()).add(f["clause"])
    want = {"tamper-field": "L2.performed", "tamper-drop": "L2.cost", "tamper-log": "C08.L.live-ts"}
    bad = 0
    if "selftest" in by:
        print("selftest: untampered trace rejected:", sorted(by["selftest"]))
        bad += 1
    for k, cl in want.items():
        if cl not in by.get(k, ()):
            print("selftest: %s not rejected by %s (got %s)" % (k, cl, sorted(by.get(k, ()))))
            bad += 1
    print("selftest binding: %s (%d positions)" % ("ok" if not bad else "FAILED", res["positions"]))
    # 4. the other direction: the run the specification generates for the same model (RunRecordF,
    #    exported by Gen_SpecRun) is, event for event, the run recorded from the code
    from . import runner
    sr = runner.spec_runs([(cfg, cfg["opts"])])[0]["runs"][0]
    cr = good["runs"][0]
    same = ([(e["ph"], e["st"]) for e in sr["ev"]] == [(e["ph"], e["st"]) for e in cr["ev"]]
            and sr["ret"] == cr["ret"] and sr["final"]["lg"] == cr["final"]["lg"])
    if not same:
        print("selftest: the specification's run differs from the recorded run of the code")
        bad += 1
    print("selftest spec-run = code-run: %s (%d events)" % ("ok" if same else "FAILED", len(sr["ev"])))
    return bad


if __name__ == "__main__":
    sys.exit(1 if main() else 0)
