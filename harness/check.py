"""python -m harness.check <property id> [--tier quick|thorough]

Decides one property of /verif/properties.jsonl on the current /repo working tree:
  L1  TLC model-checks the specification over bounded families (spec/MC_*.tla);
  L2  the real code is driven over TLC-exported and seeded random models and TLC checks
      that every recorded phase step is the specification's step (conformance);
  L3  TLC evaluates the property's clauses (spec/PdesyProps.tla) on everything recorded.
Exit 0: held on everything explored; exit 1 + "VIOLATION property=<id> replay=<path>";
exit 2: machinery failure.  Writes /verif/evidence/<id>.json."""
import argparse
import hashlib
import json
import os
import sys
import time
import traceback

from . import VERIF, use_repo

use_repo()

from . import families, plans, runner, tlc  # noqa: E402
from . import findings  # noqa: E402
from .findings import classify, load_known  # noqa: E402


def write_replay(prop, payload):
    d = os.path.join(os.environ.get("VERIF_REPLAY_DIR") or os.path.join(VERIF, "replays"), prop)
    os.makedirs(d, exist_ok=True)
    blob = json.dumps(payload, sort_keys=True)
    sha = hashlib.sha256(blob.encode()).hexdigest()[:12]
    path = os.path.join(d, sha + ".json")
    with open(path, "w") as f:
        f.write(blob)
    return path


def _spec_clauses(known, prop, fails, by_id):
    """For falsified clauses that a known finding of `prop` might explain: run the specification
    itself on the model of the failing run (Gen_SpecRun) and note which clauses *its* behaviour
    falsifies there (f["spec_clauses"]).  The findings are identified by exactly that: the
    specification models the defective behaviour, so (model, clause) is the recorded finding iff
    the specification's own run on that model falsifies that clause."""
    entries = [e for e in known if e["property"] == prop]
    if not entries:
        return
    want = {}
    for f in fails:
        cl, case = f["clause"], by_id.get(f["case"])
        if case is None or not any(cl == c or cl.startswith(c) for e in entries for c in e["clauses"]):
            continue
        if not findings.nested_product(case, f):
            continue
        run = case["runs"][f["run"] - 1] if 0 < f["run"] <= len(case["runs"]) else case["runs"][0]
        cfg = run.get("cfg") or case["cfg"]
        key = json.dumps([cfg, run["opts"]], sort_keys=True)
        want.setdefault(key, (cfg, run["opts"], []))[2].append(f)
    if not want:
        return
    keys = sorted(want)
    sets = runner.spec_falsifies([(want[k][0], want[k][1]) for k in keys], prop)
    for k, cls in zip(keys, sets):
        for f in want[k][2]:
            f["spec_clauses"] = sorted(cls)


def _replay_spec_behaviours(recs, n, seed):
    """Sample plain recorded runs (one fresh simulate() with events), let TLC generate the run of
    the specification for the same model (Gen_SpecRun) and compare the two event sequences
    (phase names and complete states), the return value and the final logs."""
    import random

    cand = [c for c in recs
            if c.get("spec", {}).get("kind") == "simulate" and not c["spec"].get("light")
            and len(c["runs"]) == 1 and c["runs"][0]["op"] == "simulate" and c["runs"][0]["ev"]
            and c["runs"][0]["ret"] in ("ok", "exc:ValueError") and "unit" not in c["runs"][0]["opts"]]
    if not cand:
        return {"cases": 0, "events": 0, "mismatch_cases": []}
    random.Random(seed + 77).shuffle(cand)
    cand = cand[:n]
    srs = runner.spec_runs([(c["cfg"], c["runs"][0]["opts"]) for c in cand])
    bad, nev = [], 0
    for c, sc in zip(cand, srs):
        cr, sr = c["runs"][0], sc["runs"][0]
        nev += len(sr["ev"])
        same = ([(e["ph"], e["st"]) for e in sr["ev"]] == [(e["ph"], e["st"]) for e in cr["ev"]]
                and sr["ret"] == cr["ret"]
                and (cr["ret"] != "ok" or sr["final"]["lg"] == cr["final"]["lg"]))
        if not same:
            bad.append(c["cfg"]["id"])
    return {"cases": len(cand), "events": nev, "mismatch_cases": bad}


def main(argv=None):
    ap = argparse.ArgumentParser()
    ap.add_argument("prop")
    ap.add_argument("--tier", default=os.environ.get("VERIF_TIER", "quick"))
    a = ap.parse_args(argv)
    prop, tier = a.prop, a.tier
    if tier not in ("quick", "thorough"):
        tier = "quick"
    seed = int(os.environ.get("VERIF_SEED", "0") or 0)
    t0 = time.time()
    plan = plans.PLANS[prop]
    known = load_known()
    out = {"violations": [], "known": [], "drift": [], "notes": []}
    cov = {"states": 0, "transitions": 0, "traces_validated_against_impl": 0, "samples": [],
           "l1": [], "l2_l3": {}, "clauses_failed": {}, "exhaustive": False}

    # ---- L2/L3: drive the real code, validate with TLC ---------------------------------
    specs = plan["cases"](tier, seed)
    recs = runner.drive_parallel(specs)
    res = tlc.validate_traces(recs, props=[prop], shards=16)
    cov["states"] += res["states"]
    cov["transitions"] += res["transitions"]
    cov["traces_validated_against_impl"] = len(recs)
    cov["l2_l3"] = {"cases": len(recs), "positions": res["positions"], "tlc_wall_s": round(res["wall"], 1),
                    "events": sum(len(r.get("ev", [])) for c in recs for r in c["runs"])}
    by_id = {c["cfg"]["id"]: c for c in recs}
    nontrivial = plans.nontrivial(prop, recs)
    _spec_clauses(known, prop, res["fails"], by_id)
    # the other direction: behaviours generated from the specification (RunRecordF, exported by
    # TLC) against what the code did - compared event by event in Python, independently of the
    # trace specification
    rep = _replay_spec_behaviours(recs, 60 if tier == "quick" else 400, seed)
    cov["spec_behaviours_replayed"] = rep
    for cid in rep["mismatch_cases"]:
        res["fails"].append({"clause": "L2.spec-behaviour", "case": cid, "run": 1, "pos": 0})
    for f in res["fails"]:
        cl = f["clause"]
        cov["clauses_failed"][cl] = cov["clauses_failed"].get(cl, 0) + 1
        case = by_id.get(f["case"])
        # X.exact (a recorded number is not representable in the specification's units) is a
        # falsified clause only for C02 - exact contributions cannot produce such a value -;
        # for every other property it is drift
        if cl.startswith("L2.") or (cl.startswith("X.") and not (prop == "C02" and cl == "X.exact")):
            out["drift"].append(f)
        elif cl.startswith(prop + ".") or cl == "X.exact":
            kf = classify(known, prop, cl, case, f)
            (out["known"] if kf else out["violations"]).append((f, kf, case))

    # ---- L1: model-check the specification ------------------------------------------------
    for inst in plan.get("l1", lambda tier, seed=0: [])(tier, seed):
        r = runner.model_check(inst, tier)
        cov["l1"].append({k: r[k] for k in ("family", "tier", "checked", "states", "distinct", "result", "wall_s")})
        cov["states"] += r["distinct"]
        cov["transitions"] += r["states"]
        if r["result"] == "violated":
            # a counterexample of the specification counts only if the real code reproduces it
            rep = runner.replay_counterexample(r, prop)
            if rep["reproduced"]:
                _spec_clauses(known, prop, rep["fails"], {rep["case"]["cfg"]["id"]: rep["case"]})
                for f in rep["fails"]:
                    kf = classify(known, prop, f["clause"], rep["case"], f)
                    (out["known"] if kf else out["violations"]).append((f, kf, rep["case"]))
            else:
                out["notes"].append("L1 counterexample for %s on %s does not reproduce in the code: "
                                    "specification drift, not a violation" % (r["violated"], r["family"]))
                out["drift"].append({"clause": "L1." + str(r["violated"]), "case": r["family"], "run": 0, "pos": 0})
        elif r["result"] != "ok":
            raise tlc.MachineryError("L1 run failed: %s" % r.get("tail", ""))
        else:
            cov["exhaustive"] = True

    # ---- verdict ----------------------------------------------------------------------------
    seen_known = {}
    for f, kf, case in out["known"]:
        seen_known.setdefault(kf["id"], (f, kf))
    for fid, (f, kf) in sorted(seen_known.items()):
        print("KNOWN-FINDING: property=%s %s [%s; e.g. clause %s on case %s]"
              % (prop, kf["what"], fid, f["clause"], f["case"]))
    rc = 0
    replay_paths = []
    if out["violations"]:
        rc = 1
        shown = {}
        for f, _, case in out["violations"]:
            shown.setdefault(f["clause"], (f, case))
        for cl, (f, case) in sorted(shown.items()):
            payload = {"property": prop, "clause": cl, "fail": f,
                       "case": runner.case_spec_of(case) if case else None}
            path = write_replay(prop, payload)
            replay_paths.append(path)
            print("VIOLATION property=%s replay=%s clause=%s case=%s pos=%s"
                  % (prop, path, cl, f["case"], f["pos"]))
    if out["drift"]:
        d = {}
        for f in out["drift"]:
            d[f["clause"]] = d.get(f["clause"], 0) + 1
        print("DRIFT (code differs from the specification without falsifying a clause of %s): %s"
              % (prop, json.dumps(d, sort_keys=True)))
    for n in out["notes"]:
        print("NOTE " + n)

    # how often each specification action / API operation was exercised by the recorded runs
    phases, ops = {}, {}
    for c in recs:
        for r in c["runs"]:
            ops[r["op"]] = ops.get(r["op"], 0) + 1
            for e in r.get("ev", []):
                phases[e["ph"]] = phases.get(e["ph"], 0) + 1
    cov["actions_exercised"] = {"phase_events": phases, "operations": ops}
    cov["situations_exercised"] = plans.situations(recs)
    cov["samples"] = plans.samples(prop, recs)
    cov["distinct_nontrivial"] = nontrivial["count"]
    cov["evaluations"] = len(recs)
    cov["rule"] = nontrivial["rule"]
    cov["drift_clauses"] = sorted({f["clause"] for f in out["drift"]})
    cov["known_findings_seen"] = sorted(seen_known)
    ev = {
        "property_id": prop, "tier": tier, "seed": seed, "level": "model_checking",
        "coverage": cov,
        "assumptions": plans.ASSUMPTIONS + plan.get("assumptions", []),
        "wall_s": round(time.time() - t0, 1),
        "violations": len({f["clause"] + "@" + f["case"] for f, _, _ in out["violations"]}),
    }
    evdir = os.environ.get("VERIF_EVIDENCE_DIR") or os.path.join(VERIF, "evidence")
    os.makedirs(evdir, exist_ok=True)
    with open(os.path.join(evdir, prop + ".json"), "w") as f:
        json.dump(ev, f, indent=1, sort_keys=True)
    print("%s %s: %d cases, %d trace positions, L1 %s, %d violation(s), %d known, %.0fs"
          % (prop, tier, len(recs), res["positions"],
             [(x["family"], x["result"], x["distinct"]) for x in cov["l1"]],
             ev["violations"], len(seen_known), ev["wall_s"]))
    return rc


if __name__ == "__main__":
    try:
        sys.exit(main())
    except tlc.MachineryError as e:
        sys.stderr.write("MACHINERY FAILURE: %s\n" % e)
        sys.exit(2)
    except SystemExit:
        raise
    except Exception:
        traceback.print_exc()
        sys.stderr.write("MACHINERY FAILURE (exception in the harness)\n")
        sys.exit(2)
