"""Known findings (/verif/known_findings.json, committed, never written at run time).

An entry with status "known" names a property, the clauses it may falsify and a
discriminator: a predicate over the failing case (configuration / history / position)
that characterises the specific defect.  A falsified clause whose case satisfies the
discriminator is reported as KNOWN-FINDING; anything else is a VIOLATION.  Entries with
status "fixed" suppress nothing."""
import json
import os

from . import VERIF


def load_known():
    p = os.path.join(VERIF, "known_findings.json")
    if not os.path.exists(p):
        return []
    with open(p) as f:
        data = json.load(f)
    return [e for e in data.get("findings", []) if e.get("status") == "known"]


# ---- discriminators -------------------------------------------------------------------
def _cfg(case):
    return case["cfg"] if case else {}


def nested_product(case, fail):
    return any(c["children"] for c in _cfg(case).get("comps", []))


def multi_task_component(case, fail):
    cfg = _cfg(case)
    n = {}
    for t in cfg.get("tasks", []):
        if t["comp"]:
            n[t["comp"]] = n.get(t["comp"], 0) + 1
    return any(v > 1 for v in n.values())


def multi_task_or_nested(case, fail):
    return nested_product(case, fail) or multi_task_component(case, fail)


def _ntasks(cfg):
    n = {}
    for t in cfg.get("tasks", []):
        if t["comp"]:
            n[t["comp"]] = n.get(t["comp"], 0) + 1
    return n


def _step_events(case, fail):
    """Events of the simulation step that contains the failing position."""
    ev = case["runs"][fail["run"] - 1].get("ev", [])
    pos = fail["pos"]
    if pos <= 0 or pos > len(ev):
        return []
    tm = ev[pos - 1]["st"]["time"]
    return [e for e in ev if e["st"]["time"] == tm]


def multi_task_component_moved(case, fail):
    """D15: the failing step re-places a flat component that carries >= 2 tasks, or a task of
    such a component holds a facility of another workplace."""
    cfg = _cfg(case)
    if nested_product(case, fail):
        return False
    n = _ntasks(cfg)
    evs = _step_events(case, fail)
    for a, b in zip(evs, evs[1:]):
        for c, (x, y) in enumerate(zip(a["st"]["cp"], b["st"]["cp"]), 1):
            if x != y and n.get(c, 0) >= 2:
                return True
    for e in evs:
        for ti, t in enumerate(cfg["tasks"]):
            if t["needF"] and n.get(t["comp"], 0) >= 2:
                for f in e["st"]["af"][ti]:
                    if cfg["facs"][f - 1]["wp"] != e["st"]["cp"][t["comp"] - 1]:
                        return True
    return False


DISCRIMINATORS = {
    "multi_task_component_moved": multi_task_component_moved,
    "nested_product": nested_product,
    "multi_task_component": multi_task_component,
    "multi_task_or_nested": multi_task_or_nested,
}


def classify(known, prop, clause, case, fail):
    for e in known:
        if e["property"] != prop:
            continue
        if not any(clause == c or clause.startswith(c) for c in e["clauses"]):
            continue
        d = DISCRIMINATORS.get(e["discriminator"])
        if d is None:
            continue
        try:
            if d(case, fail):
                return e
        except Exception:
            continue
    return None
