"""Known findings (/verif/known_findings.json, committed, never written at run time).

An entry with status "known" names a property, the clauses it may falsify and a
discriminator: a predicate over the failing case (configuration / history / position)
that characterises the specific defect.  A falsified clause whose case satisfies the
discriminator is reported as KNOWN-FINDING; anything else is a VIOLATION.  Entries with
status "fixed" suppress nothing."""
import json
import os

from . import VERIF


def load_known():
    p = os.path.join(VERIF, "known_findings.json")
    if not os.path.exists(p):
        return []
    with open(p) as f:
        data = json.load(f)
    return [e for e in data.get("findings", []) if e.get("status") == "known"]


# ---- discriminators -------------------------------------------------------------------
def _cfg(case):
    return case["cfg"] if case else {}


def nested_product(case, fail):
    return any(c["children"] for c in _cfg(case).get("comps", []))


def nested_product_as_specified(case, fail):
    """D17/D18: the model has a component with children AND the specification's own run on that
    model falsifies the same clause.  PdesyStep.tla models the defective placement of nested
    products literally (MoveComp drags all descendants, RemovePlaced crashes on a child that was
    placed on its own); harness/check.py runs it on the model of the failing run (Gen_SpecRun,
    validated by TracePdesy like a recorded run) and stores the clauses it falsifies in
    fail["spec_clauses"].  A clause the specified defective behaviour does not falsify on this
    model is something else than the recorded finding and is reported as a violation."""
    return nested_product(case, fail) and fail["clause"] in fail.get("spec_clauses", ())


def nested_crash_site(case, fail):
    """D17 / D17b: the model has a component with children and the failing run died with the
    ValueError that list.remove() raises inside BaseWorkplace.remove_placed_component (the
    driver records the pDESy frames and the message of an escaping exception as run["exc_site"])."""
    if not nested_product(case, fail):
        return False
    runs = case.get("runs", [])
    i = fail.get("run", 1)
    run = runs[i - 1] if 0 < i <= len(runs) else (runs[0] if runs else {})
    site = run.get("exc_site") or ""
    # (any frame, not only the innermost: a refactoring may move the list.remove() call into a helper)
    return (run.get("ret") == "exc:ValueError" and "base_workplace.py:remove_placed_component" in site
            and "list.remove(x)" in site)


def multi_task_component(case, fail):
    cfg = _cfg(case)
    n = {}
    for t in cfg.get("tasks", []):
        if t["comp"]:
            n[t["comp"]] = n.get(t["comp"], 0) + 1
    return any(v > 1 for v in n.values())


def multi_task_or_nested(case, fail):
    return nested_product(case, fail) or multi_task_component(case, fail)


def _ntasks(cfg):
    n = {}
    for t in cfg.get("tasks", []):
        if t["comp"]:
            n[t["comp"]] = n.get(t["comp"], 0) + 1
    return n


def _step_events(case, fail):
    """Events of the simulation step that contains the failing position."""
    ev = case["runs"][fail["run"] - 1].get("ev", [])
    pos = fail["pos"]
    if pos <= 0 or pos > len(ev):
        return []
    tm = ev[pos - 1]["st"]["time"]
    return [e for e in ev if e["st"]["time"] == tm]


def multi_task_component_moved(case, fail):
    """D15: the failing step re-places a flat component that carries >= 2 tasks, or a task of
    such a component holds a facility of another workplace."""
    cfg = _cfg(case)
    if nested_product(case, fail):
        return False
    n = _ntasks(cfg)
    evs = _step_events(case, fail)
    for a, b in zip(evs, evs[1:]):
        for c, (x, y) in enumerate(zip(a["st"]["cp"], b["st"]["cp"]), 1):
            if x != y and n.get(c, 0) >= 2:
                return True
    for e in evs:
        for ti, t in enumerate(cfg["tasks"]):
            if t["needF"] and n.get(t["comp"], 0) >= 2:
                for f in e["st"]["af"][ti]:
                    if cfg["facs"][f - 1]["wp"] != e["st"]["cp"][t["comp"] - 1]:
                        return True
    return False


DISCRIMINATORS = {
    "multi_task_component_moved": multi_task_component_moved,
    "nested_product": nested_product,
    "nested_crash_site": nested_crash_site,
    "nested_product_as_specified": nested_product_as_specified,
    "multi_task_component": multi_task_component,
    "multi_task_or_nested": multi_task_or_nested,
}


def classify(known, prop, clause, case, fail):
    for e in known:
        if e["property"] != prop:
            continue
        if not any(clause == c or clause.startswith(c) for c in e["clauses"]):
            continue
        d = DISCRIMINATORS.get(e["discriminator"])
        if d is None:
            continue
        try:
            if d(case, fail):
                return e
        except Exception:
            continue
    return None
