"""MANIFEST.setup_cmd: parse every specification module with SANY, export the quick-tier
families once (warms the cache) and run the binding self-test."""
import os
import subprocess
import sys

from . import VERIF, use_repo

use_repo()


def main():
    spec = os.path.join(VERIF, "spec")
    bad = 0
    for f in sorted(os.listdir(spec)):
        if f.endswith(".tla") and (f.startswith("MC_") or f.startswith("Trace") or f.startswith("Gen_") or f == "PdesyHist.tla"):
            p = subprocess.run(["tla-sany", f], cwd=spec, stdout=subprocess.PIPE, stderr=subprocess.STDOUT, text=True)
            ok = p.returncode == 0 and "Semantic errors" not in p.stdout and "Parse Error" not in p.stdout
            print("sany %-24s %s" % (f, "ok" if ok else "FAILED"))
            if not ok:
                print(p.stdout[-2000:])
                bad += 1
    # export the quick-tier families once (cached under .cache/families, keyed by the spec hash)
    from concurrent.futures import ThreadPoolExecutor
    from . import families
    fams = [("deps", "Gen_Families"), ("deps2", "Gen_Families"), ("deps4", "Gen_Families"), ("alloc", "Gen_Families"),
            ("abs", "Gen_Families"), ("pert", "Gen_Families"), ("place", "Gen_Families"), ("placeflat", "Gen_Families"),
            ("conveyor", "Gen_Families"), ("pairs", "Gen_Families"), ("dag", "Gen_Families"), ("watch", "Gen_Families"),
            ("edge", "Gen_Families"), ("fixed", "Gen_Families"), ("half", "Gen_Families"), ("mainwp", "Gen_Families"),
            ("due", "Gen_Families"), ("autocomp", "Gen_Families"), ("nest2", "Gen_Families"),
            ("sub", "Gen_Families"), ("sort", "Gen_Sort"), ("report", "Gen_Report"), ("histC08", "PdesyHist"),
            ("histC18", "PdesyHist")]
    with ThreadPoolExecutor(max_workers=6) as ex:
        for (name, mod), n in zip(fams, ex.map(lambda fm: len(families.export_family(fm[0], 1, module=fm[1])), fams)):
            print("family %-10s %6d cases" % (name, n))
    from . import selftest
    bad += selftest.main()
    return 1 if bad else 0


if __name__ == "__main__":
    sys.exit(main())
