"""MANIFEST.setup_cmd: parse every specification module with SANY, export the quick-tier
families once (warms the cache) and run the binding self-test."""
import os
import subprocess
import sys

from . import VERIF, use_repo

use_repo()


def main():
    spec = os.path.join(VERIF, "spec")
    bad = 0
    for f in sorted(os.listdir(spec)):
        if f.endswith(".tla") and (f.startswith("MC_") or f.startswith("Trace") or f.startswith("Gen_")):
            p = subprocess.run(["tla-sany", f], cwd=spec, stdout=subprocess.PIPE, stderr=subprocess.STDOUT, text=True)
            ok = p.returncode == 0 and "Semantic errors" not in p.stdout and "Parse Error" not in p.stdout
            print("sany %-24s %s" % (f, "ok" if ok else "FAILED"))
            if not ok:
                print(p.stdout[-2000:])
                bad += 1
    from . import selftest
    bad += selftest.main()
    return 1 if bad else 0


if __name__ == "__main__":
    sys.exit(main())
