"""Families of configurations: TLC exports the exhaustive families of
spec/PdesyFamilies.tla (Gen_Families.tla); harness/gen.py widens them with seeded random
models.  Exports are cached under .cache/families keyed by the hash of the spec sources."""
import hashlib
import json
import os
import random
import shutil

from . import VERIF
from . import gen
from . import tlc


def _spec_hash():
    h = hashlib.sha256()
    d = os.path.join(VERIF, "spec")
    for f in sorted(os.listdir(d)):
        if f.endswith(".tla"):
            h.update(f.encode())
            h.update(open(os.path.join(d, f), "rb").read())
    return h.hexdigest()[:16]


def export_family(name, tier, module="Gen_Families"):
    """All cfgs of Family(name, tier), as enumerated by TLC."""
    cdir = os.path.join(tlc.CACHE, "families")
    os.makedirs(cdir, exist_ok=True)
    path = os.path.join(cdir, "%s-%d-%s.ndjson" % (name, tier, _spec_hash()))
    if not os.path.exists(path):
        wd = tlc.workdir("gen")
        try:
            cfgf = os.path.join(wd, "gen.cfg")
            with open(cfgf, "w") as f:
                f.write('INIT Init\nNEXT Next\nCHECK_DEADLOCK FALSE\nCONSTANTS FAMILY = "%s"\nTIER = %d\n' % (name, tier))
            out = os.path.join(wd, "out.ndjson")
            rc, o = tlc.run_tlc(module, cfgf, wd, env={"OUT_FILE": out}, workers=1,
                                timeout=tlc.TLC_TIMEOUT_S, heap="6g", quickjit=(tier == 1))
            if rc != 0 or not os.path.exists(out):
                raise tlc.MachineryError("family export %s/%d failed:\n%s" % (name, tier, o[-2000:]))
            os.replace(out, path)
            # drop exports of this family made from older versions of the specification
            for old in os.listdir(cdir):
                if old.startswith("%s-%d-" % (name, tier)) and os.path.join(cdir, old) != path:
                    try:
                        os.remove(os.path.join(cdir, old))
                    except OSError:
                        pass          # another check removed it first
        finally:
            shutil.rmtree(wd, ignore_errors=True)
    cfgs = []
    with open(path) as f:
        for i, line in enumerate(f):
            line = line.strip()
            if line:
                c = json.loads(line)
                c["id"] = "%s%d.%d" % (name, tier, i)
                if "ops" in c and "cfg" not in c:
                    pass
                if "cfg" in c and isinstance(c["cfg"], dict):
                    c["cfg"]["id"] = c["id"]
                cfgs.append(c)
    return cfgs


def sample(cfgs, n, seed):
    if n is None or n >= len(cfgs):
        return list(cfgs)
    rng = random.Random(seed)
    return rng.sample(cfgs, n)


def random_cfgs(seed, n, prefix, **kw):
    kw.setdefault("maxTime", 25)
    return gen.rand_family(seed, n, prefix=prefix, **kw)
