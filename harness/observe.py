"""Projection of a live pDESy project onto the specification's state record `st`
and log record `lg` (spec/PdesyStep.tla, spec/PdesyApi.tla).

Numbers: work amounts / PERT values are integers in units of 1/Q, space sizes in units
of 1/2, costs are integers.  A value that is not exactly representable is rounded
down and its field name is listed under "inexact" (the trace specification has a clause
that requires this list to be empty)."""

TS = {0: "NONE", 1: "READY", 2: "WORKING", 3: "WORKING_ADDITIONALLY", -1: "FINISHED"}
RS = {0: "FREE", 1: "WORKING", -1: "ABSENCE"}
CS = {0: "NONE", 1: "READY", 2: "WORKING", -1: "FINISHED"}
STATUS = {0: "NONE", 1: "SUCCESS", -1: "FAILURE"}
MODE = {0: "NONE", 1: "FORWARD", -1: "BACKWARD"}


class Projector:
    def __init__(self, model):
        self.m = model
        self.inexact = []

    def num(self, x, scale, field):
        try:
            v = x * scale
            iv = int(round(v))
        except Exception:
            self.inexact.append(field)
            return -99999
        # exact up to floating-point noise far below the library's own 1e-10 tolerance
        if abs(iv - v) > 1e-7 or abs(iv) > 10**8:
            self.inexact.append(field)
            if abs(iv) > 10**8:
                return -99999
        return iv

    def idx(self, table, obj, field):
        i = table.get(id(obj))
        if i is None:
            self.inexact.append(field + ":foreign-object")
            return 0
        return i

    def tasks(self):
        """Tasks in task_list order; helper tasks appended by backward_simulate come last."""
        m = self.m
        extra = [t for t in m.project.workflow.task_list if id(t) not in m.tix]
        return list(m.tasks) + extra, extra

    def state(self):
        m, Q = self.m, self.m.Q
        p = m.project
        self.inexact = []
        tasks, extra = self.tasks()
        tix = m.tix
        if extra:
            tix = dict(m.tix)
            for i, t in enumerate(extra, len(m.tasks) + 1):
                tix[id(t)] = i
        st = {
            "time": p.time,
            "status": STATUS[int(p.status)],
            "mode": MODE[int(p.simulation_mode)],
            "ts": [TS[int(t.state)] for t in tasks],
            "rem": [self.num(t.remaining_work_amount, Q, "rem") for t in tasks],
            "aw": [[self.idx(m.wix, w, "aw") for w in t.allocated_worker_list] for t in tasks],
            "af": [[self.idx(m.fix, f, "af") for f in t.allocated_facility_list] for t in tasks],
            "est": [self.num(t.est, Q, "est") for t in tasks],
            "eft": [self.num(t.eft, Q, "eft") for t in tasks],
            "lst": [self.num(t.lst, Q, "lst") for t in tasks],
            "lft": [self.num(t.lft, Q, "lft") for t in tasks],
            "cpl": self.num(p.workflow.critical_path_length, Q, "cpl"),
            "ws": [RS[int(w.state)] for w in m.workers],
            "wt": [[self.idx(tix, t, "wt") for t in w.assigned_task_list] for w in m.workers],
            "fs": [RS[int(f.state)] for f in m.facs],
            "ft": [[self.idx(tix, t, "ft") for t in f.assigned_task_list] for f in m.facs],
            "cs": [CS[int(c.state)] for c in m.comps],
            "cp": [
                (self.idx(m.pix, c.placed_workplace, "cp") if c.placed_workplace is not None else 0)
                for c in m.comps
            ],
            "pc": [[self.idx(m.cix, c, "pc") for c in w.placed_component_list] for w in m.wps],
            "rc": [sum(1 for s in t.state_record_list if int(s) == 1) for t in tasks],
            "crash": False,
        }
        return st

    # ---- logs -------------------------------------------------------------------
    def _ids(self, rec, prefix, field):
        """['W1','W2'] -> [1,2]; None (inserted absence step 0) -> [-1]."""
        if rec is None:
            return [-1]
        out = []
        for s in rec:
            try:
                assert s[0] == prefix
                out.append(int(s[1:]))
            except Exception:
                self.inexact.append(field + ":bad-id")
                out.append(0)
        return out

    def logs(self):
        m, Q = self.m, self.m.Q
        p = m.project
        self.inexact = []
        n = self.num
        lg = {
            "time": p.time,
            "status": STATUS[int(p.status)],
            "mode": MODE[int(p.simulation_mode)],
            "absL": [int(a) for a in p.absence_time_list],
            "pcost": [n(c, 1, "pcost") for c in p.cost_list],
            "ocost": [n(c, 1, "ocost") for c in p.organization.cost_list],
            "mcost": [[n(c, 1, "mcost") for c in t.cost_list] for t in m.teams],
            "pwcost": [[n(c, 1, "pwcost") for c in w.cost_list] for w in m.wps],
            "ts": [[TS[int(s)] for s in t.state_record_list] for t in m.tasks],
            "rem": [[n(r, Q, "remlog") for r in t.remaining_work_amount_record_list] for t in m.tasks],
            "aw": [[self._ids(r, "W", "awlog") for r in t.allocated_worker_id_record] for t in m.tasks],
            "af": [[self._ids(r, "F", "aflog") for r in t.allocated_facility_id_record] for t in m.tasks],
            "ws": [[RS[int(s)] for s in w.state_record_list] for w in m.workers],
            "wcost": [[n(c, 1, "wcost") for c in w.cost_list] for w in m.workers],
            "wt": [[self._ids(r, "T", "wtlog") for r in w.assigned_task_id_record] for w in m.workers],
            "fs": [[RS[int(s)] for s in f.state_record_list] for f in m.facs],
            "fcost": [[n(c, 1, "fcost") for c in f.cost_list] for f in m.facs],
            "ft": [[self._ids(r, "T", "ftlog") for r in f.assigned_task_id_record] for f in m.facs],
            "cs": [[CS[int(s)] for s in c.state_record_list] for c in m.comps],
            "cp": [
                [(0 if r is None else self._ids([r], "P", "cplog")[0]) for r in c.placed_workplace_id_record]
                for c in m.comps
            ],
            "pc": [[self._ids(r, "C", "pclog") for r in w.placed_component_id_record] for w in m.wps],
        }
        lg["inexact"] = sorted(set(self.inexact))
        return lg

    def structure(self):
        """Dependency / conveyor structure as ordered index lists plus the identity of the
        list objects (C17: 'same objects, same order')."""
        m = self.m
        self.inexact = []
        dk = {0: "FS", 1: "SS", 2: "FF", 3: "SF"}
        s = {
            "tin": [[[self.idx(m.tix, t, "tin"), dk[int(d)]] for t, d in x.input_task_list] for x in m.tasks],
            "tout": [[[self.idx(m.tix, t, "tout"), dk[int(d)]] for t, d in x.output_task_list] for x in m.tasks],
            "pin": [[self.idx(m.pix, w, "pin") for w in x.input_workplace_list] for x in m.wps],
            "pout": [[self.idx(m.pix, w, "pout") for w in x.output_workplace_list] for x in m.wps],
            "ntasks": len(m.project.workflow.task_list),
            "tasklist": [self.idx(m.tix, t, "tasklist") for t in m.project.workflow.task_list],
        }
        ids = {
            "tin": [id(x.input_task_list) for x in m.tasks],
            "tout": [id(x.output_task_list) for x in m.tasks],
            "pin": [id(x.input_workplace_list) for x in m.wps],
            "pout": [id(x.output_workplace_list) for x in m.wps],
            "pairs": [[id(pair) for pair in x.input_task_list] for x in m.tasks],
        }
        s["inexact"] = sorted(set(self.inexact))
        return s, ids


def extract_params(model):
    """The static model parameters the specification's cfg carries, read back from the live
    project (IDs mapped to indices; unknown IDs map to 0).  Used by C16: what was given to the
    constructors must survive a JSON round trip."""
    m, Q = model, model.Q
    p = m.project
    pr = Projector(m)

    def ix(table, obj):
        return table.get(id(obj), 0) if obj is not None else 0

    def idnum(s, prefix):
        try:
            return int(s[1:]) if s is not None and s[0] == prefix else (0 if s is None else -1)
        except Exception:
            return -1

    def num(x, scale):
        try:
            v = x * scale
            return int(v) if int(v) == v else repr(x)
        except Exception:
            return repr(x)

    def rule(r):
        return getattr(r, "name", repr(r))

    tasks = []
    for t in m.tasks:
        if t is None:
            tasks.append(None)
            continue
        tasks.append({
            "cls": type(t).__name__ if type(t).__name__ != "RankedTask" else "BaseTask",
            "work": num(t.default_work_amount, Q), "prog": num(t.default_progress, 4), "auto": bool(t.auto_task),
            "rate": num(t.work_amount_progress_of_unit_step_time, Q), "needF": bool(t.need_facility),
            "comp": ix(m.cix, t.target_component),
            "teams": [ix({id(x): i for i, x in enumerate(m.teams, 1)}, x) for x in t.allocated_team_list],
            "wps": [ix(m.pix, x) for x in t.allocated_workplace_list],
            "fixW": None if t.fixing_allocating_worker_id_list is None else [idnum(x, "W") for x in t.fixing_allocating_worker_id_list],
            "fixF": None if t.fixing_allocating_facility_id_list is None else [idnum(x, "F") for x in t.fixing_allocating_facility_id_list],
            "wrule": rule(t.worker_priority_rule), "frule": rule(t.facility_priority_rule),
            "prule": rule(t.workplace_priority_rule), "due": t.due_time,
            "tin": [[ix(m.tix, x), int(d)] for x, d in t.input_task_list],
            "tout": [[ix(m.tix, x), int(d)] for x, d in t.output_task_list],
            "sub": ([getattr(t, "file_path", None), repr(getattr(t, "unit_timedelta", None)),
                     getattr(t, "read_json_file", "unset"), getattr(t, "remove_absence_time_list_flag", "unset")]
                    if type(t).__name__ == "BaseSubProjectTask" else None),
        })
    workers = [None if w is None else {
        "team": idnum(w.team_id, "M"), "skill": sorted((k, num(v, Q)) for k, v in w.workamount_skill_mean_map.items()),
        "fskill": sorted((k, num(v, 1)) for k, v in w.facility_skill_map.items()), "cost": num(w.cost_per_time, 1),
        "solo": bool(w.solo_working), "abs": list(w.absence_time_list), "mainwp": idnum(w.main_workplace_id, "P")}
        for w in m.workers]
    facs = [None if f is None else {
        "wp": idnum(f.workplace_id, "P"), "skill": sorted((k, num(v, 1)) for k, v in f.workamount_skill_mean_map.items()),
        "cost": num(f.cost_per_time, 1), "solo": bool(f.solo_working), "abs": list(f.absence_time_list)}
        for f in m.facs]
    wps = [None if w is None else {
        "cap": num(w.max_space_size, 2), "inputs": [ix(m.pix, x) for x in w.input_workplace_list],
        "outputs": [ix(m.pix, x) for x in w.output_workplace_list],
        "parent": ix(m.pix, w.parent_workplace),
        "facs": [ix(m.fix, f) for f in w.facility_list]} for w in m.wps]
    comps = [None if c is None else {
        "space": num(c.space_size, 2), "children": [ix(m.cix, x) for x in c.child_component_list],
        "parents": [ix(m.cix, x) for x in c.parent_component_list]} for c in m.comps]
    teams = [None if t is None else {"parent": ix({id(x): i for i, x in enumerate(m.teams, 1)}, t.parent_team),
                                      "workers": [ix(m.wix, w) for w in t.worker_list],
                                      "targets": [ix(m.tix, x) for x in t.targeted_task_list]} for t in m.teams]
    proj = {"absL": list(p.absence_time_list), "autoAbs": bool(p.perform_auto_task_while_absence_time),
            "init": p.init_datetime.strftime("%Y-%m-%d %H:%M:%S"), "unit": p.unit_timedelta.total_seconds()}
    import json
    raw = {"tasks": tasks, "workers": workers, "facs": facs, "wps": wps, "comps": comps, "project": proj,
           "teams": teams}
    # canonical text per section: TLC compares them as strings (JSON null / floats do not deserialise)
    return {k: json.dumps(v, sort_keys=True) for k, v in raw.items()}
