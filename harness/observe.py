"""Projection of a live pDESy project onto the specification's state record `st`
and log record `lg` (spec/PdesyStep.tla, spec/PdesyApi.tla).

Numbers: work amounts / PERT values are integers in units of 1/Q, space sizes in units
of 1/2, costs are integers.  A value that is not exactly representable is rounded
down and its field name is listed under "inexact" (the trace specification has a clause
that requires this list to be empty)."""

TS = {0: "NONE", 1: "READY", 2: "WORKING", 3: "WORKING_ADDITIONALLY", -1: "FINISHED"}
RS = {0: "FREE", 1: "WORKING", -1: "ABSENCE"}
CS = {0: "NONE", 1: "READY", 2: "WORKING", -1: "FINISHED"}
STATUS = {0: "NONE", 1: "SUCCESS", -1: "FAILURE"}
MODE = {0: "NONE", 1: "FORWARD", -1: "BACKWARD"}


class Projector:
    def __init__(self, model):
        self.m = model
        self.inexact = []

    def num(self, x, scale, field):
        try:
            v = x * scale
            iv = int(v)
        except Exception:
            self.inexact.append(field)
            return -99999
        if iv != v or abs(iv) > 10**8:
            self.inexact.append(field)
            if abs(iv) > 10**8:
                return -99999
        return iv

    def idx(self, table, obj, field):
        i = table.get(id(obj))
        if i is None:
            self.inexact.append(field + ":foreign-object")
            return 0
        return i

    def state(self):
        m, Q = self.m, self.m.Q
        p = m.project
        self.inexact = []
        st = {
            "time": p.time,
            "status": STATUS[int(p.status)],
            "mode": MODE[int(p.simulation_mode)],
            "ts": [TS[int(t.state)] for t in m.tasks],
            "rem": [self.num(t.remaining_work_amount, Q, "rem") for t in m.tasks],
            "aw": [[self.idx(m.wix, w, "aw") for w in t.allocated_worker_list] for t in m.tasks],
            "af": [[self.idx(m.fix, f, "af") for f in t.allocated_facility_list] for t in m.tasks],
            "est": [self.num(t.est, Q, "est") for t in m.tasks],
            "eft": [self.num(t.eft, Q, "eft") for t in m.tasks],
            "lst": [self.num(t.lst, Q, "lst") for t in m.tasks],
            "lft": [self.num(t.lft, Q, "lft") for t in m.tasks],
            "cpl": self.num(p.workflow.critical_path_length, Q, "cpl"),
            "ws": [RS[int(w.state)] for w in m.workers],
            "wt": [[self.idx(m.tix, t, "wt") for t in w.assigned_task_list] for w in m.workers],
            "fs": [RS[int(f.state)] for f in m.facs],
            "ft": [[self.idx(m.tix, t, "ft") for t in f.assigned_task_list] for f in m.facs],
            "cs": [CS[int(c.state)] for c in m.comps],
            "cp": [
                (self.idx(m.pix, c.placed_workplace, "cp") if c.placed_workplace is not None else 0)
                for c in m.comps
            ],
            "pc": [[self.idx(m.cix, c, "pc") for c in w.placed_component_list] for w in m.wps],
            "rc": [sum(1 for s in t.state_record_list if int(s) == 1) for t in m.tasks],
            "crash": False,
        }
        return st

    # ---- logs -------------------------------------------------------------------
    def _ids(self, rec, prefix, field):
        """['W1','W2'] -> [1,2]; None (inserted absence step 0) -> [-1]."""
        if rec is None:
            return [-1]
        out = []
        for s in rec:
            try:
                assert s[0] == prefix
                out.append(int(s[1:]))
            except Exception:
                self.inexact.append(field + ":bad-id")
                out.append(0)
        return out

    def logs(self):
        m, Q = self.m, self.m.Q
        p = m.project
        self.inexact = []
        n = self.num
        lg = {
            "time": p.time,
            "status": STATUS[int(p.status)],
            "mode": MODE[int(p.simulation_mode)],
            "absL": [int(a) for a in p.absence_time_list],
            "pcost": [n(c, 1, "pcost") for c in p.cost_list],
            "ocost": [n(c, 1, "ocost") for c in p.organization.cost_list],
            "mcost": [[n(c, 1, "mcost") for c in t.cost_list] for t in m.teams],
            "pwcost": [[n(c, 1, "pwcost") for c in w.cost_list] for w in m.wps],
            "ts": [[TS[int(s)] for s in t.state_record_list] for t in m.tasks],
            "rem": [[n(r, Q, "remlog") for r in t.remaining_work_amount_record_list] for t in m.tasks],
            "aw": [[self._ids(r, "W", "awlog") for r in t.allocated_worker_id_record] for t in m.tasks],
            "af": [[self._ids(r, "F", "aflog") for r in t.allocated_facility_id_record] for t in m.tasks],
            "ws": [[RS[int(s)] for s in w.state_record_list] for w in m.workers],
            "wcost": [[n(c, 1, "wcost") for c in w.cost_list] for w in m.workers],
            "wt": [[self._ids(r, "T", "wtlog") for r in w.assigned_task_id_record] for w in m.workers],
            "fs": [[RS[int(s)] for s in f.state_record_list] for f in m.facs],
            "fcost": [[n(c, 1, "fcost") for c in f.cost_list] for f in m.facs],
            "ft": [[self._ids(r, "T", "ftlog") for r in f.assigned_task_id_record] for f in m.facs],
            "cs": [[CS[int(s)] for s in c.state_record_list] for c in m.comps],
            "cp": [
                [(0 if r is None else self._ids([r], "P", "cplog")[0]) for r in c.placed_workplace_id_record]
                for c in m.comps
            ],
            "pc": [[self._ids(r, "C", "pclog") for r in w.placed_component_id_record] for w in m.wps],
        }
        lg["inexact"] = sorted(set(self.inexact))
        return lg

    def structure(self):
        """Dependency / conveyor structure as ordered index lists plus the identity of the
        list objects (C17: 'same objects, same order')."""
        m = self.m
        self.inexact = []
        dk = {0: "FS", 1: "SS", 2: "FF", 3: "SF"}
        s = {
            "tin": [[[self.idx(m.tix, t, "tin"), dk[int(d)]] for t, d in x.input_task_list] for x in m.tasks],
            "tout": [[[self.idx(m.tix, t, "tout"), dk[int(d)]] for t, d in x.output_task_list] for x in m.tasks],
            "pin": [[self.idx(m.pix, w, "pin") for w in x.input_workplace_list] for x in m.wps],
            "pout": [[self.idx(m.pix, w, "pout") for w in x.output_workplace_list] for x in m.wps],
            "ntasks": len(m.project.workflow.task_list),
            "tasklist": [self.idx(m.tix, t, "tasklist") for t in m.project.workflow.task_list],
        }
        ids = {
            "tin": [id(x.input_task_list) for x in m.tasks],
            "tout": [id(x.output_task_list) for x in m.tasks],
            "pin": [id(x.input_workplace_list) for x in m.wps],
            "pout": [id(x.output_workplace_list) for x in m.wps],
            "pairs": [[id(pair) for pair in x.input_task_list] for x in m.tasks],
        }
        s["inexact"] = sorted(set(self.inexact))
        return s, ids
