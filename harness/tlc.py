"""Running TLC: trace-validation batches (sharded, one worker each) and model-checking
instances; parsing of verdict lines and statistics."""
import json
import os
import re
import shutil
import subprocess
import tempfile
import time
from concurrent.futures import ThreadPoolExecutor

from . import VERIF

SPEC = os.path.join(VERIF, "spec")
CACHE = os.path.join(VERIF, ".cache")
JAR = "/opt/veriftools/tla/tla2tools.jar"


class MachineryError(Exception):
    pass


def _classpath():
    cp = [JAR]
    d = "/opt/veriftools/tla"
    for f in sorted(os.listdir(d)):
        if f.endswith(".jar") and f != "tla2tools.jar":
            cp.append(os.path.join(d, f))
    return ":".join(cp)


def workdir(tag):
    os.makedirs(CACHE, exist_ok=True)
    return tempfile.mkdtemp(prefix=tag + "-", dir=CACHE)


FAIL_RE = re.compile(r'<<"FAIL",\s*"([^"]+)",\s*"([^"]*)",\s*(-?\d+),\s*(-?\d+)>>')
STATES_RE = re.compile(r"(\d+) states generated, (\d+) distinct states found")


def run_tlc(module, cfgfile, wd, env=None, workers=1, timeout=None, extra=(), heap="2g", quickjit=True):
    """Run TLC on spec/<module>.tla with spec/<cfgfile>; returns (rc, output)."""
    meta = os.path.join(wd, "meta")
    e = dict(os.environ)
    e.pop("JAVA_TOOL_OPTIONS", None)
    if env:
        e.update(env)
    cmd = [
        "java", "-Xmx" + heap, "-Xss256m"] + (["-XX:+UseSerialGC", "-XX:TieredStopAtLevel=1"] if quickjit
                                    else ["-XX:+UseParallelGC"]) + ["-cp", _classpath(), "tlc2.TLC",
        "-workers", str(workers), "-metadir", meta, "-noGenerateSpecTE",
        "-config", os.path.join(SPEC, cfgfile),
    ] + list(extra) + [os.path.join(SPEC, module + ".tla")]
    if timeout is None:
        timeout = TLC_TIMEOUT_S
    try:
        p = subprocess.run(cmd, cwd=wd, env=e, stdout=subprocess.PIPE, stderr=subprocess.STDOUT,
                           timeout=timeout, text=True)
    except subprocess.TimeoutExpired as ex:
        raise MachineryError("TLC timeout on %s after %ss" % (module, timeout)) from ex
    return p.returncode, p.stdout


def parse_fails(out):
    return [
        {"clause": m.group(1), "case": m.group(2), "run": int(m.group(3)), "pos": int(m.group(4))}
        for m in FAIL_RE.finditer(out)
    ]


def parse_states(out):
    m = None
    for m in STATES_RE.finditer(out):
        pass
    if m is None:
        return None
    return int(m.group(1)), int(m.group(2))


def expected_positions(cases):
    return sum(1 + len(r.get("ev", [])) for c in cases for r in c["runs"])


ALL_PROPS = ["C%02d" % i for i in range(1, 21)]
MAX_SHARD_BYTES = 12 * 1024 * 1024
# one TLC run may take this long before it counts as a machinery failure: generous, because a
# loaded machine (several checks at once) slowed a 10-minute export beyond 30 minutes (thorough
# C11 in run 5); override with VERIF_TLC_TIMEOUT
TLC_TIMEOUT_S = int(os.environ.get("VERIF_TLC_TIMEOUT", "14400"))


def validate_traces(cases, props=None, module="TracePdesy", cfgfile="TracePdesy.cfg", shards=16,
                    timeout=None, keep=False):
    """Validate recorded cases with TLC.  Returns dict(fails, states, transitions, positions, wall)."""
    t0 = time.time()
    if not cases:
        return {"fails": [], "states": 0, "transitions": 0, "positions": 0, "wall": 0.0}
    # shards are bounded by serialized size as well as by count: one TLC run deserialises its whole
    # input file, and a file of >100 MB exhausted a 2 GB heap (thorough C18, 37k positions per shard)
    blobs = [json.dumps(c) for c in cases]
    total = sum(len(b) for b in blobs)
    nparts = max(1, min(len(cases), max(shards, -(-total // MAX_SHARD_BYTES))))
    order = sorted(range(len(cases)), key=lambda k: -len(blobs[k]))
    parts, pblobs, load = [[] for _ in range(nparts)], [[] for _ in range(nparts)], [0] * nparts
    for k in order:                                   # longest-first greedy packing
        j = load.index(min(load))
        parts[j].append(cases[k])
        pblobs[j].append(blobs[k])
        load[j] += len(blobs[k])
    wd = workdir("trace")
    fails, states, gen = [], 0, 0
    head = json.dumps(list(props if props is not None else ALL_PROPS))

    def one(i):
        sd = os.path.join(wd, "s%d" % i)
        os.makedirs(sd)
        tf = os.path.join(sd, "trace.json")
        with open(tf, "w") as f:
            f.write('{"props": %s, "cases": [%s]}' % (head, ", ".join(pblobs[i])))
        pblobs[i] = None
        rc, out = run_tlc(module, cfgfile, sd, env={"TRACE_FILE": tf}, workers=1, timeout=timeout)
        try:
            os.remove(tf)
        except OSError:
            pass
        st = parse_states(out)
        exp = expected_positions(parts[i])
        if st is None or "Model checking completed" not in out or st[1] != exp:
            with open(os.path.join(CACHE, "last_tlc_failure.log"), "w") as f:
                f.write(out)
            raise MachineryError(
                "TLC did not consume every recorded position (shard %d: got %s, expected %d, rc=%d); "
                "output in .cache/last_tlc_failure.log" % (i, st, exp, rc))
        return parse_fails(out), st

    try:
        with ThreadPoolExecutor(max_workers=min(16, nparts)) as ex:
            for fl, st in ex.map(one, range(nparts)):
                fails.extend(fl)
                gen += st[0]
                states += st[1]
    finally:
        if not keep:
            shutil.rmtree(wd, ignore_errors=True)
    return {"fails": fails, "states": states, "transitions": gen,
            "positions": expected_positions(cases), "wall": time.time() - t0}
