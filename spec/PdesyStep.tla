---------------------------- MODULE PdesyStep ----------------------------
(***************************************************************************)
(* The step machine of BaseProject.simulate (pDESy/model/base_project.py). *)
(*                                                                         *)
(* One operator per critical section ("phase") of one simulation step, in  *)
(* the order the code runs them; each is a deterministic function from     *)
(* the state record `st` to the next state record.  The phase hook of the  *)
(* implementation (PDESY_VERIF=1) emits one event after each of them, and  *)
(* the trace specification requires  st' = Phase(cfg, st).                 *)
(*                                                                         *)
(*   initialize            InitF                                           *)
(*   check_state(FINISHED) FinF   ; product.check_state  CompStateF        *)
(*   check_removing_...    UnplaceF                                        *)
(*   check_state(READY)    ReadyF ; product.check_state  CompStateF        *)
(*   update_PERT_data      PertF (PdesyPert)                               *)
(*   return                ReturnF                                         *)
(*   absence refresh       PresenceF                                       *)
(*   __allocate            AllocF  = fold of AllocTask over sorted tasks   *)
(*   check_state(WORKING)  StartF ; product.check_state  CompStateF        *)
(*   add_labor_cost        CostF                                           *)
(*   perform               PerformF                                        *)
(*   record                RecordF (log tails; the logs live in PdesyApi)  *)
(*   time += 1             TickF                                           *)
(*                                                                         *)
(* st fields: time status mode ts rem aw af est eft lst lft cpl ws wt fs   *)
(*            ft cs cp pc rc crash                                         *)
(*   ts[t] task state, rem[t] remaining work, aw[t]/af[t] allocated        *)
(*   worker / facility sequences, ws/fs resource state, wt/ft assigned     *)
(*   task sequences, cs[c] component state, cp[c] placed workplace (0 =    *)
(*   none), pc[p] placed component sequence, rc[t] number of READY entries *)
(*   in t's state log (the FIFO key), crash = a list.remove() raised.      *)
(***************************************************************************)
EXTENDS PdesyPert

\* ---- named deviations of the pinned code from the intended design -------
\* (DESIGN.md section 7; a repair in pDESy is a one-line change here)
\* D1/D2: a start-to-start / start-to-finish predecessor counts as "started"
\* (pinned code: predecessor had to be *still* WORKING; repaired by fix commits 7506496, 2646482)
SSStarted(s) == s \in {"WORKING", "FINISHED"}
SFStarted(s) == s \in {"WORKING", "FINISHED"}

Rank4(s) == CASE s = "NONE" -> 0 [] s = "READY" -> 1 [] s = "WORKING" -> 2 [] s = "FINISHED" -> 3

\* ---------------------------------------------------------------------------
\* product.check_state(): BaseComponent.check_state for every component
CompStateOne(cfg, st, c) ==
  LET S == { st.ts[t] : t \in TasksOf(cfg, c) }
      allW == S \subseteq {"WORKING"}
      allF == S \subseteq {"FINISHED"}
      s1 == IF ~allW /\ ~allF /\ "READY" \in S THEN "READY" ELSE st.cs[c]
      s2 == IF "WORKING" \in S THEN "WORKING" ELSE s1
  IN IF allF THEN "FINISHED" ELSE s2
CompStateF(cfg, st) == [st EXCEPT !.cs = [c \in Comps(cfg) |-> CompStateOne(cfg, st, c)]]

\* ---------------------------------------------------------------------------
\* initialize(state_info=True, log_info=True) followed by the option assignments
InitTaskState(cfg, t) == IF DoneByDefault(cfg, t) THEN "FINISHED" ELSE "NONE"
ReadyGate(cfg, ts, t) ==
  \A e \in ToSet(InEdges(cfg, t)):
     /\ (e[3] = "FS" => ts[e[1]] = "FINISHED")
     /\ (e[3] = "SS" => SSStarted(ts[e[1]]))
\* __check_ready: every NONE task whose start gate holds becomes READY
ReadyF(cfg, st) ==
  [st EXCEPT !.ts = [t \in Tasks(cfg) |->
      IF st.ts[t] = "NONE" /\ ReadyGate(cfg, st.ts, t) THEN "READY" ELSE st.ts[t]]]

BlankState(cfg) ==
  [time |-> 0, status |-> "NONE", mode |-> "NONE",
   ts  |-> [t \in Tasks(cfg) |-> "NONE"],
   rem |-> [t \in Tasks(cfg) |-> InitRem(cfg, t)],
   aw  |-> [t \in Tasks(cfg) |-> <<>>], af |-> [t \in Tasks(cfg) |-> <<>>],
   est |-> [t \in Tasks(cfg) |-> 0], eft |-> [t \in Tasks(cfg) |-> 0],
   lst |-> [t \in Tasks(cfg) |-> 0 - cfg.Q], lft |-> [t \in Tasks(cfg) |-> 0 - cfg.Q],
   cpl |-> 0,
   ws  |-> [w \in Workers(cfg) |-> "FREE"], wt |-> [w \in Workers(cfg) |-> <<>>],
   fs  |-> [f \in Facs(cfg) |-> "FREE"],    ft |-> [f \in Facs(cfg) |-> <<>>],
   cs  |-> [c \in Comps(cfg) |-> "NONE"],   cp |-> [c \in Comps(cfg) |-> 0],
   pc  |-> [p \in Wps(cfg) |-> <<>>],
   rc  |-> [t \in Tasks(cfg) |-> 0],
   crash |-> FALSE]

\* project.initialize(): organization, workflow (tasks, PERT at 0, READY check), product
InitializeF(cfg) ==
  LET s0 == BlankState(cfg)
      s1 == [s0 EXCEPT !.ts = [t \in Tasks(cfg) |-> InitTaskState(cfg, t)]]
      s2 == ReadyF(cfg, PertF(cfg, s1))
  IN CompStateF(cfg, s2)
\* state at the "init" event of simulate()
InitF(cfg) == [InitializeF(cfg) EXCEPT !.mode = "FORWARD"]

\* ---------------------------------------------------------------------------
\* __check_finished
FinishGate(cfg, ts, t) ==
  \A e \in ToSet(InEdges(cfg, t)):
     /\ (e[3] = "SF" => SFStarted(ts[e[1]]))
     /\ (e[3] = "FF" => ts[e[1]] = "FINISHED")

ReleaseWorker(st, t, w) ==
  IF Len(st.wt[w]) > 0 /\ \A i \in DOMAIN st.wt[w]: st.ts[st.wt[w][i]] = "FINISHED"
  THEN [st EXCEPT !.ws[w] = "FREE", !.wt[w] = RemoveFirst(st.wt[w], t)]
  ELSE st
ReleaseFacility(st, t, f) ==
  IF Len(st.ft[f]) > 0 /\ \A i \in DOMAIN st.ft[f]: st.ts[st.ft[f][i]] = "FINISHED"
  THEN [st EXCEPT !.fs[f] = "FREE", !.ft[f] = RemoveFirst(st.ft[f], t)]
  ELSE st

FinishTask(cfg, st, t) ==
  LET s1 == [st EXCEPT !.ts[t] = "FINISHED", !.rem[t] = 0]
      s2 == FoldLeft(LAMBDA s, w: ReleaseWorker(s, t, w), s1, st.aw[t])
      s3 == [s2 EXCEPT !.aw[t] = <<>>]
  IN IF cfg.tasks[t].needF
     THEN [FoldLeft(LAMBDA s, f: ReleaseFacility(s, t, f), s3, st.af[t]) EXCEPT !.af[t] = <<>>]
     ELSE s3

ZeroSet(cfg, st) == { t \in Tasks(cfg) : st.ts[t] = "WORKING" /\ st.rem[t] <= 0 }

\* one pass over the zero-work set in the given visiting order
FinPass(cfg, st, order) ==
  FoldLeft(LAMBDA s, t: IF s.ts[t] = "WORKING" /\ FinishGate(cfg, s.ts, t)
                        THEN FinishTask(cfg, s, t) ELSE s,
           st, order)
\* the code re-runs the check (recomputing the zero-work set) while a pass finishes a task;
\* the pinned code made a single pass (D3), repaired by a fix commit
RECURSIVE FinF(_, _)
FinF(cfg, st) ==
  LET s2 == FinPass(cfg, st, ByRank(cfg, ZeroSet(cfg, st)))
  IN IF s2.ts = st.ts THEN s2 ELSE FinF(cfg, s2)

\* ---------------------------------------------------------------------------
\* placement helpers (BaseWorkplace.set/remove_placed_component, recursive)
RECURSIVE RemovePlaced(_, _, _)
\* r = [ok, l]: list.remove(c) raises ValueError when c is not in the list
RemovePlaced(cfg, r, c) ==
  IF ~r.ok THEN r
  ELSE IF ~Mem(r.l, c) THEN [ok |-> FALSE, l |-> r.l]
  ELSE FoldLeft(LAMBDA a, d: RemovePlaced(cfg, a, d),
                [ok |-> TRUE, l |-> RemoveFirst(r.l, c)], Children(cfg, c))
RECURSIVE AddPlaced(_, _, _)
AddPlaced(cfg, l, c) ==
  IF Mem(l, c) THEN l
  ELSE FoldLeft(LAMBDA a, d: AddPlaced(cfg, a, d), Append(l, c), Children(cfg, c))
SetPlacedWp(cfg, cp, c, p) ==
  [x \in Comps(cfg) |-> IF x = c \/ x \in Descendants(cfg, c) THEN p ELSE cp[x]]

\* product.check_removing_placed_workplace()
UnplaceOne(cfg, st, c) ==
  IF st.crash THEN st
  ELSE LET p == st.cp[c]
           r == RemovePlaced(cfg, [ok |-> TRUE, l |-> st.pc[p]], c)
       IN IF ~r.ok THEN [st EXCEPT !.crash = TRUE]
          ELSE [st EXCEPT !.pc[p] = r.l, !.cp = SetPlacedWp(cfg, st.cp, c, 0)]
UnplaceSet(cfg, st) ==
  { c \in Comps(cfg) : IsTop(cfg, c) /\ st.cp[c] # 0
                       /\ \A t \in TasksOf(cfg, c): st.ts[t] = "FINISHED" }
UnplaceF(cfg, st) ==
  FoldLeft(LAMBDA s, c: UnplaceOne(cfg, s, c), st, SetToSortSeq(UnplaceSet(cfg, st), <))

\* ---------------------------------------------------------------------------
\* return from the loop
AllFinished(cfg, st) == \A t \in Tasks(cfg): st.ts[t] = "FINISHED"
ReturnF(cfg, opts, st) ==
  IF AllFinished(cfg, st) THEN [st EXCEPT !.status = "SUCCESS"]
  ELSE [st EXCEPT !.status = "FAILURE"]
Returns(cfg, opts, st) == AllFinished(cfg, st) \/ st.time >= opts.maxTime

\* ---------------------------------------------------------------------------
\* worker / facility state refresh at the start of the step
PresenceF(cfg, opts, st) ==
  IF IsAbsenceStep(opts, st.time)
  THEN [st EXCEPT !.ws = [w \in Workers(cfg) |-> "ABSENCE"],
                  !.fs = [f \in Facs(cfg) |-> "ABSENCE"]]
  ELSE [st EXCEPT
          !.ws = [w \in Workers(cfg) |->
                    IF Mem(cfg.workers[w].abs, st.time) THEN "ABSENCE"
                    ELSE IF Len(st.wt[w]) = 0 THEN "FREE" ELSE "WORKING"],
          !.fs = [f \in Facs(cfg) |->
                    IF Mem(cfg.facs[f].abs, st.time) THEN "ABSENCE"
                    ELSE IF Len(st.ft[f]) = 0 THEN "FREE" ELSE "WORKING"]]

\* ---------------------------------------------------------------------------
\* __allocate
\* BaseTask.can_add_resources(worker=w, facility=f); f = 0: no facility given
CanAdd(cfg, st, t, w, f) ==
  /\ st.ts[t] \notin {"NONE", "FINISHED"}
  /\ \A i \in DOMAIN st.aw[t]: ~cfg.workers[st.aw[t][i]].solo
  /\ \A i \in DOMAIN st.af[t]: ~cfg.facs[st.af[t][i]].solo
  /\ (cfg.workers[w].solo => Len(st.aw[t]) = 0)
  /\ (f # 0 => (cfg.facs[f].solo => Len(st.af[t]) = 0))
  /\ (cfg.tasks[t].fixWon => Mem(cfg.tasks[t].fixW, w))
  /\ (f # 0 => (cfg.tasks[t].fixFon => Mem(cfg.tasks[t].fixF, f)))
  /\ (f # 0 => Len(st.ft[f]) = 0)
  /\ IF f # 0 THEN FHasSkill(cfg, f, t) /\ CanOperate(cfg, w, f) /\ HasSkill(cfg, w, t)
     ELSE HasSkill(cfg, w, t)

\* BaseComponent.is_ready()
CompIsReady(cfg, st, c) ==
  LET S == { st.ts[t] : t \in TasksOf(cfg, c) }
  IN /\ ~(S \subseteq {"FINISHED"})
     /\ ~(S \subseteq {"NONE"})
     /\ "WORKING" \notin S
     /\ "READY" \in S

Avail(cfg, st, p) ==
  cfg.wps[p].cap - FoldLeft(LAMBDA a, c: a + cfg.comps[c].space, 0, st.pc[p])
WpSkillSum(cfg, p, t) ==
  FoldLeft(LAMBDA a, f: a + Max2(FSkill(cfg, f, t), 0), 0, FacsOf(cfg, p))

\* may component c (of task t) be moved to workplace p now?
CanPlace(cfg, st, t, c, p) ==
  /\ (Len(cfg.wps[p].inputs) > 0 /\ st.cp[c] # 0 => Mem(cfg.wps[p].inputs, st.cp[c]))
  /\ Avail(cfg, st, p) >= cfg.comps[c].space
  /\ WpSkillSum(cfg, p, t) > 0

\* the "for c_wp in wp.placed_component_list: ... remove" loop, which mutates the
\* list it iterates (index-based iteration of a Python list)
RECURSIVE ScanRemove(_, _, _, _)
ScanRemove(cfg, r, i, c) ==
  IF ~r.ok \/ i > Len(r.l) THEN r
  ELSE IF c \in ParentsOf(cfg, r.l[i])
       THEN ScanRemove(cfg, RemovePlaced(cfg, r, r.l[i]), i + 1, c)
       ELSE ScanRemove(cfg, r, i + 1, c)

\* move component c to workplace p (block 3-1-1 of __allocate)
MoveComp(cfg, st, c, p) ==
  LET pre == st.cp[c]
      \* 3-1-1-1 remove
      s1 == IF pre = 0
            THEN FoldLeft(
                   LAMBDA s, ch:
                     IF s.crash \/ s.cp[ch] = 0 THEN s
                     ELSE LET q == s.cp[ch]
                              r == ScanRemove(cfg, [ok |-> TRUE, l |-> s.pc[q]], 1, c)
                          IN IF r.ok THEN [s EXCEPT !.pc[q] = r.l]
                             ELSE [s EXCEPT !.crash = TRUE],
                   st, Children(cfg, c))
            ELSE LET r == RemovePlaced(cfg, [ok |-> TRUE, l |-> st.pc[pre]], c)
                 IN IF r.ok THEN [st EXCEPT !.pc[pre] = r.l] ELSE [st EXCEPT !.crash = TRUE]
  IN IF s1.crash THEN s1
     ELSE [s1 EXCEPT !.cp = SetPlacedWp(cfg, s1.cp, c, p),
                     !.pc[p] = AddPlaced(cfg, s1.pc[p], c)]

\* 3-1: placement of the task's component: at most once per step (moved = components placed
\* earlier in this allocation phase) and not after one of its tasks has been given workers
\* (fix of D15).  Returns [st, moved].
PlaceFor(cfg, st, moved, t) ==
  LET c == cfg.tasks[t].comp
      same == [st |-> st, moved |-> moved]
  IN IF c = 0 \/ ~CompIsReady(cfg, st, c) \/ c \in moved
        \/ (\E u \in TasksOf(cfg, c): Len(st.aw[u]) > 0) THEN same
     ELSE LET avail == [p \in Wps(cfg) |-> Avail(cfg, st, p)]
              cand == StableSortBy(cfg.tasks[t].wps,
                                   WorkplaceKey(cfg, cfg.tasks[t].prule, t, avail))
              ok == SelectSeq(cand, LAMBDA p: CanPlace(cfg, st, t, c, p))
          IN IF Len(ok) = 0 THEN same
             ELSE [st |-> MoveComp(cfg, st, c, ok[1]), moved |-> moved \cup {c}]

GiveWorker(st, t, w) ==
  [st EXCEPT !.aw[t] = Append(st.aw[t], w), !.wt[w] = Append(st.wt[w], t)]

\* acc = [st, free, moved]; free = the free_worker_list local variable of __allocate
AllocWorkersPlain(cfg, acc, t) ==
  LET free2 == StableSortBy(acc.free, WorkerKey(cfg, cfg.tasks[t].wrule, t, 0))
      cands == SelectSeq(free2, LAMBDA w: HasSkill(cfg, w, t) /\ TeamTargets(cfg, w, t))
  IN FoldLeft(LAMBDA a, w:
                IF CanAdd(cfg, a.st, t, w, 0)
                THEN [a EXCEPT !.st = GiveWorker(a.st, t, w), !.free = RemoveElem(a.free, w)]
                ELSE a,
              [acc EXCEPT !.free = free2], cands)

AllocPairs(cfg, acc, t) ==
  LET p == acc.st.cp[cfg.tasks[t].comp]
  IN IF p = 0 THEN acc
     ELSE LET freeF == SelectSeq(FacsOf(cfg, p), LAMBDA f: acc.st.fs[f] = "FREE")
              sortF == StableSortBy(freeF, FacilityKey(cfg, cfg.tasks[t].frule, t))
              candF == SelectSeq(sortF, LAMBDA f: FHasSkill(cfg, f, t) /\ WpTargets(cfg, p, t))
          IN FoldLeft(
               LAMBDA a, f:
                 LET ws == SelectSeq(a.free, LAMBDA w: /\ HasSkill(cfg, w, t)
                                                        /\ TeamTargets(cfg, w, t)
                                                        /\ CanAdd(cfg, a.st, t, w, f))
                     sw == StableSortBy(ws, WorkerKey(cfg, cfg.tasks[t].wrule, t, p))
                 IN IF Len(sw) = 0 THEN a
                    ELSE LET w == sw[1]
                             s1 == GiveWorker(a.st, t, w)
                         IN [a EXCEPT !.st = [s1 EXCEPT !.af[t] = Append(s1.af[t], f),
                                                         !.ft[f] = Append(s1.ft[f], t)],
                                      !.free = RemoveElem(a.free, w)],
               acc, candF)

\* one iteration of "for task in ready_and_working_task_list"
AllocTask(cfg, acc, t) ==
  IF acc.st.crash THEN acc
  ELSE LET pl == PlaceFor(cfg, acc.st, acc.moved, t)
           s1 == pl.st
           a1 == [st |-> s1, free |-> acc.free, moved |-> pl.moved]
       IN IF s1.crash \/ cfg.tasks[t].auto THEN a1
          ELSE IF cfg.tasks[t].needF THEN AllocPairs(cfg, a1, t)
          ELSE AllocWorkersPlain(cfg, a1, t)

AllocOrder(cfg, opts, st) ==
  StableSortBy(SelectSeq([i \in Tasks(cfg) |-> i],
                         LAMBDA t: st.ts[t] \in {"READY", "WORKING"}),
               TaskKey(cfg, st, opts.rule))
AllocStart(cfg, st) ==
  [st |-> st, free |-> SelectSeq([i \in Workers(cfg) |-> i], LAMBDA w: st.ws[w] = "FREE"), moved |-> {}]
\* accumulator after the first k tasks of the sorted list
AllocPrefix(cfg, opts, st, k) ==
  FoldLeft(LAMBDA a, t: AllocTask(cfg, a, t), AllocStart(cfg, st),
           SubSeq(AllocOrder(cfg, opts, st), 1, k))
AllocF(cfg, opts, st) ==
  IF IsAbsenceStep(opts, st.time) THEN st
  ELSE AllocPrefix(cfg, opts, st, Len(AllocOrder(cfg, opts, st))).st

\* ---------------------------------------------------------------------------
\* __check_working
StartSet(cfg, st) ==
  { t \in Tasks(cfg) :
      \/ st.ts[t] = "READY" /\ Len(st.aw[t]) > 0
      \/ st.ts[t] = "READY" /\ cfg.tasks[t].auto /\ cfg.tasks[t].comp = 0
      \/ st.ts[t] = "READY" /\ cfg.tasks[t].auto /\ cfg.tasks[t].comp # 0
           /\ st.cp[cfg.tasks[t].comp] # 0 /\ Mem(cfg.tasks[t].wps, st.cp[cfg.tasks[t].comp])
      \/ st.ts[t] = "WORKING" /\ Len(st.aw[t]) > 0 }
StartOne(cfg, st, t) ==
  IF st.ts[t] = "READY"
  THEN [st EXCEPT
          !.ts[t] = "WORKING",
          !.ws = [w \in Workers(cfg) |-> IF Mem(st.aw[t], w) THEN "WORKING" ELSE st.ws[w]],
          !.fs = [f \in Facs(cfg) |->
                    IF cfg.tasks[t].needF /\ Mem(st.af[t], f) THEN "WORKING" ELSE st.fs[f]]]
  ELSE [st EXCEPT
          !.ws = [w \in Workers(cfg) |->
                    IF Mem(st.aw[t], w) /\ st.ws[w] = "FREE" THEN "WORKING" ELSE st.ws[w]],
          !.fs = [f \in Facs(cfg) |->
                    IF cfg.tasks[t].needF /\ Len(st.aw[t]) > 0 /\ Mem(st.af[t], f)
                       /\ st.fs[f] = "FREE" THEN "WORKING" ELSE st.fs[f]]]
StartF(cfg, st) ==
  FoldLeft(LAMBDA s, t: StartOne(cfg, s, t), st, ByRank(cfg, StartSet(cfg, st)))

\* ---------------------------------------------------------------------------
\* add_labor_cost: the amounts appended to the cost logs in this step
WorkerCost(cfg, opts, st, w) ==
  IF ~IsAbsenceStep(opts, st.time) /\ st.ws[w] = "WORKING" THEN cfg.workers[w].cost ELSE 0
FacCost(cfg, opts, st, f) ==
  IF ~IsAbsenceStep(opts, st.time) /\ st.fs[f] = "WORKING" THEN cfg.facs[f].cost ELSE 0
TeamCost(cfg, opts, st, m) ==
  SumOver({ w \in Workers(cfg) : cfg.workers[w].team = m }, LAMBDA w: WorkerCost(cfg, opts, st, w))
WpCost(cfg, opts, st, p) ==
  SumOver({ f \in Facs(cfg) : cfg.facs[f].wp = p }, LAMBDA f: FacCost(cfg, opts, st, f))
StepCost(cfg, opts, st) ==
  SumOver(Workers(cfg), LAMBDA w: WorkerCost(cfg, opts, st, w))
  + SumOver(Facs(cfg), LAMBDA f: FacCost(cfg, opts, st, f))

\* ---------------------------------------------------------------------------
\* perform
NumWorkingOf(st, seq) == Cardinality({ i \in DOMAIN seq : st.ts[seq[i]] = "WORKING" })
WProgress(cfg, st, w, t) ==
  IF ~HasSkill(cfg, w, t) \/ st.ws[w] = "ABSENCE" THEN 0
  ELSE Skill(cfg, w, t) \div Max2(NumWorkingOf(st, st.wt[w]), 1)
FProgress(cfg, st, f, t) ==
  IF ~FHasSkill(cfg, f, t) \/ st.fs[f] = "ABSENCE" THEN 0
  ELSE FSkill(cfg, f, t) \div Max2(NumWorkingOf(st, st.ft[f]), 1)
Contribution(cfg, st, t) ==
  IF cfg.tasks[t].auto THEN cfg.tasks[t].rate
  ELSE IF cfg.tasks[t].needF
  THEN LET n == Min2(Len(st.aw[t]), Len(st.af[t]))
       IN SumOver(1..n, LAMBDA i: WProgress(cfg, st, st.aw[t][i], t) * FProgress(cfg, st, st.af[t][i], t))
  ELSE FoldLeft(LAMBDA a, w: a + WProgress(cfg, st, w, t), 0, st.aw[t])
PerformF(cfg, opts, st) ==
  LET working == ~IsAbsenceStep(opts, st.time)
  IN [st EXCEPT !.rem = [t \in Tasks(cfg) |->
        IF st.ts[t] = "WORKING" /\ (working \/ (opts.autoAbs /\ cfg.tasks[t].auto))
        THEN st.rem[t] - Contribution(cfg, st, t) ELSE st.rem[t]]]

\* ---------------------------------------------------------------------------
\* record: only rc (the FIFO key) is live state; the log entries themselves are the
\* displayed values below (PdesyApi appends them to the logs)
ShowTask(working, s) == IF ~working /\ s = "WORKING" THEN "READY" ELSE s
ShowRes(working, s)  == IF ~working THEN "ABSENCE" ELSE s
RecordF(cfg, opts, st) ==
  LET working == ~IsAbsenceStep(opts, st.time)
  IN [st EXCEPT !.rc = [t \in Tasks(cfg) |->
        IF ShowTask(working, st.ts[t]) = "READY" THEN st.rc[t] + 1 ELSE st.rc[t]]]
TickF(opts, st) == [st EXCEPT !.time = st.time + Unit(opts)]

\* ---------------------------------------------------------------------------
\* compositions
UpdateFinF(cfg, st)   == CompStateF(cfg, FinF(cfg, st))
UpdateReadyF(cfg, st) == CompStateF(cfg, ReadyF(cfg, st))
UpdateF(cfg, st) == PertF(cfg, UpdateReadyF(cfg, UnplaceF(cfg, UpdateFinF(cfg, st))))
\* (a fix commit made an absence step dead time for starts too, unless auto tasks run in it)
StartPhaseF(cfg, opts, st) ==
  IF IsAbsenceStep(opts, st.time) /\ ~opts.autoAbs THEN st ELSE CompStateF(cfg, StartF(cfg, st))
\* everything between the "updated" event of a step and the "recorded" event
WorkF(cfg, opts, st) ==
  RecordF(cfg, opts, PerformF(cfg, opts, StartPhaseF(cfg, opts, AllocF(cfg, opts, PresenceF(cfg, opts, st)))))
=============================================================================
