---------------------------- MODULE PdesyHist ----------------------------
(***************************************************************************)
(* Operation histories at the API level, enumerated exhaustively by TLC up *)
(* to a length bound and exported for the harness, which replays each of   *)
(* them on base models with the real code (C08, C18).                      *)
(*                                                                         *)
(* An operation is a record with a fixed set of fields; unused fields have *)
(* neutral values.  maxTime = -1: the model's own max_time.                *)
(***************************************************************************)
EXTENDS Integers, Sequences, FiniteSets, SequencesExt, TLC, Json, IOUtils

Op(op, absL, maxTime, initState, initLog, state, log, due, reverse, L) ==
  [op |-> op, absL |-> absL, maxTime |-> maxTime, initState |-> initState, initLog |-> initLog,
   state |-> state, log |-> log, due |-> due, reverse |-> reverse, L |-> L]
Sim(absL, maxTime, s, l) == Op("simulate", absL, maxTime, s, l, TRUE, TRUE, FALSE, TRUE, <<>>)
Init_(s, l) == Op("initialize", <<>>, -1, TRUE, TRUE, s, l, FALSE, TRUE, <<>>)
Back(d, r) == Op("backward", <<>>, -1, TRUE, TRUE, TRUE, TRUE, d, r, <<>>)
Rev == Op("reverse", <<>>, -1, TRUE, TRUE, TRUE, TRUE, FALSE, TRUE, <<>>)
Rem == Op("remove_absence", <<>>, -1, TRUE, TRUE, TRUE, TRUE, FALSE, TRUE, <<>>)
Ins(L) == Op("insert_absence", <<>>, -1, TRUE, TRUE, TRUE, TRUE, FALSE, TRUE, L)
\* indices relative to the current end of the logs (0 = the first step beyond the end)
InsRel(L) == Op("insert_absence_rel", <<>>, -1, TRUE, TRUE, TRUE, TRUE, FALSE, TRUE, L)

\* does the operation leave a simulated result behind / need one?
Creates(o) == o.op \in {"simulate", "backward"} /\ o.initLog
Needs(o) == \/ o.op \in {"reverse", "remove_absence", "insert_absence", "insert_absence_rel"}
            \/ (o.op = "simulate" /\ ~(o.initState /\ o.initLog))
            \/ (o.op = "initialize" /\ ~(o.state /\ o.log))

\* a history is valid when every operation that needs a result has one
RECURSIVE ValidFrom(_, _, _)
ValidFrom(h, i, have) ==
  IF i > Len(h) THEN TRUE
  ELSE /\ (Needs(h[i]) => have)
       /\ ValidFrom(h, i + 1,
                    IF Creates(h[i]) THEN TRUE
                    ELSE IF h[i].op = "initialize" /\ h[i].log THEN FALSE ELSE have)
Valid(h) == ValidFrom(h, 1, FALSE)

Hists(Ops, n) == { h \in UNION { [1..k -> Ops] : k \in 1..n } : Valid(h) }

\* C08: simulate / simulate again / initialize(flags) / pause + resume / backward / reverse
OpsC08 ==
  { Sim(<<>>, -1, TRUE, TRUE), Sim(<<1>>, -1, TRUE, TRUE), Sim(<<>>, 2, TRUE, TRUE),
    Sim(<<>>, -1, FALSE, FALSE), Sim(<<>>, 60, TRUE, FALSE), Sim(<<>>, -1, FALSE, TRUE),
    Init_(TRUE, TRUE), Init_(TRUE, FALSE), Init_(FALSE, TRUE),
    Back(FALSE, TRUE), Back(TRUE, FALSE), Back(TRUE, TRUE), Rev }
\* C18: a simulated result, then any sequence of remove / insert calls
OpsC18 == { Rem, Ins(<<0>>), Ins(<<1, 3>>), Ins(<<2, 40>>), Ins(<<3, 1>>), Ins(<<1, 2>>),
            InsRel(<<-2, 0>>), InsRel(<<-1, 0, 1>>), Ins(<<2, 2, 40>>) }
HistsC18(n) ==
  { <<s>> \o h : s \in { Sim(<<>>, -1, TRUE, TRUE), Sim(<<1, 2>>, -1, TRUE, TRUE) },
                 h \in UNION { [1..k -> OpsC18] : k \in 1..n } }

CONSTANTS FAMILY, TIER
HistFamily ==
  CASE FAMILY = "histC08" -> Hists(OpsC08, IF TIER = 1 THEN 3 ELSE 4)
    [] FAMILY = "histC18" -> HistsC18(IF TIER = 1 THEN 3 ELSE 4)
ASSUME ndJsonSerialize(IOEnv.OUT_FILE, SetToSeq({ [ops |-> h] : h \in HistFamily }))
VARIABLE x
Init == x = 0
Next == FALSE /\ x' = x
=============================================================================
