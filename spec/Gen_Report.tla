---------------------------- MODULE Gen_Report ----------------------------
(* Exports the inputs of the reporting functions (ReportFamily) as ndjson for the harness. *)
EXTENDS PdesyFamilies, Json, IOUtils, TLC
CONSTANTS FAMILY, TIER
ASSUME ndJsonSerialize(IOEnv.OUT_FILE, SetToSeq(ReportFamily(TIER)))
VARIABLE x
Init == x = 0
Next == FALSE /\ x' = x
=============================================================================
