---------------------------- MODULE PdesyFamilies ----------------------------
(***************************************************************************)
(* Bounded families of project models (cfg records).  One source of truth: *)
(* the model-checking instances take their initial states from here, and   *)
(* Gen_Families.tla exports the very same sets as ndjson for the harness   *)
(* that runs the real code on them.                                        *)
(*                                                                         *)
(* Tier 1 = quick bounds, tier 2 = thorough bounds.                        *)
(***************************************************************************)
EXTENDS PdesyProps, TLC

\* ---- constructors (defaults as in harness/gen.py) -----------------------
Task(work, prog, auto, rate, needF, comp, teams, wps, rank) ==
  [work |-> work, prog |-> prog, auto |-> auto, rate |-> rate, needF |-> needF, comp |-> comp,
   teams |-> teams, wps |-> wps, fixWon |-> FALSE, fixW |-> <<>>, fixFon |-> FALSE, fixF |-> <<>>,
   wrule |-> "SSP", frule |-> "SSP", prule |-> "FSS", due |-> -1, rank |-> rank, sub |-> FALSE]
PlainTask(work, rank) == Task(work, 0, FALSE, 1, FALSE, 0, <<1>>, <<>>, rank)
Worker(team, skill, fskill, cost, solo, abs, mainwp) ==
  [team |-> team, skill |-> skill, fskill |-> fskill, cost |-> cost, solo |-> solo,
   abs |-> abs, mainwp |-> mainwp]
PlainWorker(skill, cost) == Worker(1, skill, <<>>, cost, FALSE, <<>>, 0)
Facility(wp, skill, cost, solo, abs) ==
  [wp |-> wp, skill |-> skill, cost |-> cost, solo |-> solo, abs |-> abs]
Opt(absL, autoAbs, rule, maxTime) ==
  [absL |-> absL, autoAbs |-> autoAbs, rule |-> rule, maxTime |-> maxTime]
Cfg(id, Q, tasks, deps, nTeam, workers, facs, wps, comps, opts) ==
  [id |-> id, Q |-> Q, tasks |-> tasks, deps |-> deps, nTeam |-> nTeam, workers |-> workers,
   facs |-> facs, wps |-> wps, comps |-> comps, opts |-> opts]

Kinds == {"FS", "SS", "FF", "SF"}
TaskRules == {"TSLACK", "EST", "SPT", "LPT", "FIFO", "LRPT", "SRPT", "LWRPT", "SWRPT"}
WorkerRules == {"MW", "SSP", "VC", "HSV"}

\* all permutations of 1..n as sequences
Perms(n) == { p \in [1..n -> 1..n] : \A i, j \in 1..n: i # j => p[i] # p[j] }

\* dependency maps on the pairs i<j of 1..n: each pair none or one of the kinds in K.
\* Edge direction: low index -> high index or (flip) high -> low, so task_list order
\* need not be a topological order.
Pairs(n) == { <<i, j>> \in (1..n) \X (1..n) : i < j }
DepSeqs(n, K, flip) ==
  LET PS == SetToSortSeq(Pairs(n), LAMBDA a, b: a[1] < b[1] \/ (a[1] = b[1] /\ a[2] < b[2]))
      KindChoices == [1..Len(PS) -> K \cup {"none"}]
  IN { LET chosen == SelectSeq([i \in 1..Len(PS) |-> <<PS[i], c[i]>>], LAMBDA x: x[2] # "none")
       IN [i \in 1..Len(chosen) |->
             IF flip THEN <<chosen[i][1][2], chosen[i][1][1], chosen[i][2]>>
             ELSE <<chosen[i][1][1], chosen[i][1][2], chosen[i][2]>>]
       : c \in KindChoices }

\* ---- FamDeps: dependency kinds x timing of completion ----------------------
\* n tasks, every dependency map over the four kinds, work amounts from W, one
\* dedicated worker per task (skill from S) so that nothing waits for a worker,
\* every visiting order (rank permutation) of the internal task sets.
TwoOrders(n) == {[i \in 1..n |-> i], [i \in 1..n |-> n + 1 - i]}
FamDeps(n, W, S, rules, flips, allOrders) ==
  { Cfg("deps", 1,
        [t \in 1..n |-> PlainTask(w[t], r[t] - 1)],
        d, 1,
        [k \in 1..n |-> PlainWorker([t \in 1..n |-> IF t = k THEN s ELSE 0], 1)],
        <<>>, <<>>, <<>>, Opt(<<>>, FALSE, rule, 12))
    : w \in [1..n -> W], s \in S, r \in (IF allOrders THEN Perms(n) ELSE TwoOrders(n)), rule \in rules,
      d \in UNION { DepSeqs(n, Kinds, f) : f \in flips } }

\* dependency maps over a given sequence of pairs
DepSeqsOn(PS, K) ==
  { LET chosen == SelectSeq([i \in 1..Len(PS) |-> <<PS[i], c[i]>>], LAMBDA x: x[2] # "none")
    IN [i \in 1..Len(chosen) |-> <<chosen[i][1][1], chosen[i][1][2], chosen[i][2]>>]
    : c \in [1..Len(PS) -> K \cup {"none"}] }
FamDeps4 ==
  { Cfg("deps4", 1, [t \in 1..4 |-> PlainTask(w[t], r[t] - 1)], d, 1,
        [k \in 1..4 |-> PlainWorker([t \in 1..4 |-> IF t = k THEN 1 ELSE 0], 1)],
        <<>>, <<>>, <<>>, Opt(<<>>, FALSE, "TSLACK", 14))
    : w \in {<<1, 1, 1, 1>>, <<2, 1, 1, 2>>, <<1, 2, 2, 1>>, <<2, 2, 2, 2>>}, r \in TwoOrders(4),
      d \in DepSeqsOn(<<<<1, 2>>, <<2, 3>>, <<3, 4>>, <<1, 3>>, <<2, 4>>>>, Kinds) }

\* ---- FamAlloc: contention for workers ---------------------------------------
\* 3 independent tasks (plus optionally one FS link), 2 workers in 2 teams with
\* skills from SK per task (incl. 0 and missing), solo flags, team targeting.
FamAlloc(TM, SK1, SK2, SO, AB, DEP, rules, wrules) ==
  { Cfg("alloc", 1,
        [t \in 1..3 |-> [Task(2, 0, FALSE, 1, FALSE, 0, tm[t], <<>>, t - 1) EXCEPT !.wrule = wr]],
        dep, 2,
        << Worker(1, sk1, <<>>, 1, so[1], <<>>, 0), Worker(2, sk2, <<>>, 3, so[2], ab, 0) >>,
        <<>>, <<>>, <<>>, Opt(<<>>, FALSE, rule, 9))
    : tm \in TM, sk1 \in [1..3 -> SK1], sk2 \in [1..3 -> SK2],
      so \in SO, ab \in AB, rule \in rules, wr \in wrules, dep \in DEP }

\* ---- FamAbsence: project-wide absence lists ------------------------------------
FamAbsence(AL) ==
  { Cfg("abs", 1,
        << Task(w1, 0, FALSE, 1, FALSE, 0, <<1>>, <<>>, 0),
           Task(2, 0, au, 1, FALSE, 0, <<1>>, <<>>, 1),
           Task(1, 0, FALSE, 1, FALSE, 0, <<1>>, <<>>, 2) >>,
        d, 1,
        << PlainWorker(<<1, 1, s13>>, 1), Worker(1, <<2, 0, 1>>, <<>>, 3, FALSE, wab, 0) >>,
        <<>>, <<>>, <<>>, Opt(al, aa, "TSLACK", 20))
    : w1 \in {1, 3, 4}, s13 \in {0, 1}, au \in BOOLEAN, aa \in BOOLEAN, al \in AL, wab \in {<<>>, <<1>>},
      d \in {<<>>, <<<<1, 2, "FS">>>>, <<<<1, 2, "SS">>, <<2, 3, "FS">>>>, <<<<1, 3, "FF">>>>,
             <<<<2, 3, "SS">>>>, <<<<2, 1, "SF">>>>} }

\* ---- FamPert: finish-to-start DAGs -----------------------------------------------
FamPert(n, W) ==
  { Cfg("pert", 1,
        [t \in 1..n |-> PlainTask(w[t], r[t] - 1)],
        d, 1,
        << PlainWorker([t \in 1..n |-> 1], 1), PlainWorker([t \in 1..n |-> 2], 1) >>,
        <<>>, <<>>, <<>>, Opt(<<>>, FALSE, "TSLACK", 20))
    : w \in [1..n -> W], r \in {[i \in 1..n |-> i], [i \in 1..n |-> n + 1 - i]},
      d \in DepSeqs(n, {"FS"}, FALSE) \cup DepSeqs(n, {"FS"}, TRUE) }

\* ---- FamPlace: components, workplaces, facilities ---------------------------------
\* 2 components (flat, or c1 parent of c2), 2 workplaces (optionally wp1 -> wp2 conveyor),
\* one facility each; tasks t1 (c1, needs facility), t2 (c2, needs facility), t3 (c1 or c2)
FamPlace(CAP, SP, C3, CH) ==
  { Cfg("place", 1,
        << Task(2, 0, FALSE, 1, TRUE, 1, <<1>>, w1, 0),
           Task(1, 0, FALSE, 1, TRUE, 2, <<1>>, w2, 1),
           Task(1, 0, FALSE, 1, nf3 /\ c3 # 0, c3, <<1>>, IF c3 = 0 THEN <<>> ELSE <<1, 2>>, 2) >>,
        d, 1,
        << Worker(1, <<1, 1, 1>>, <<1, 1>>, 1, FALSE, <<>>, 0),
           Worker(1, <<1, 1, 1>>, <<1, 1>>, 1, FALSE, <<>>, 0) >>,
        << Facility(1, <<1, 1, 1>>, 1, FALSE, <<>>), Facility(2, <<1, 1, 1>>, 2, FALSE, <<>>) >>,
        << [cap |-> cap[1], inputs |-> <<>>], [cap |-> cap[2], inputs |-> inp] >>,
        << [space |-> sp[1], children |-> ch], [space |-> sp[2], children |-> <<>>] >>,
        Opt(<<>>, FALSE, "TSLACK", 14))
    : w1 \in {<<1>>, <<1, 2>>}, w2 \in {<<2>>, <<2, 1>>}, nf3 \in BOOLEAN, c3 \in C3,
      d \in {<<>>, <<<<1, 2, "FS">>>>, <<<<1, 3, "FS">>>>},
      cap \in [1..2 -> CAP], sp \in [1..2 -> SP], inp \in {<<>>, <<1>>}, ch \in CH }

\* ---- FamConveyor: components waiting for a busy facility, three workplaces, conveyor links ----
\* two single-task components compete for one facility per workplace; a component that waits
\* (placed, task READY) is re-placed every step, so capacity, ranking and conveyor rules interact
FamConveyor(WL, CAP1) ==
  { Cfg("conv", 1,
        << [Task(w1, 0, FALSE, 1, TRUE, 1, <<1>>, l1, 0) EXCEPT !.prule = pr],
           [Task(1, 0, FALSE, 1, TRUE, 2, <<1>>, l2, 1) EXCEPT !.prule = pr],
           \* a third component that occupies workplace 3 for two steps and then leaves
           [Task(2, 0, FALSE, 1, TRUE, 3, <<1>>, <<3>>, 2) EXCEPT !.prule = pr] >>,
        <<>>, 1,
        << Worker(1, <<1, 1, 1>>, <<1, 1, 1>>, 1, FALSE, <<>>, 0),
           Worker(1, <<1, 1, 1>>, <<1, 1, 1>>, 1, FALSE, <<>>, 0),
           Worker(1, <<1, 1, 1>>, <<1, 1, 1>>, 1, FALSE, <<>>, 0) >>,
        << Facility(1, <<1, 1, 1>>, 1, FALSE, <<>>), Facility(2, <<1, 1, 1>>, 1, FALSE, <<>>),
           Facility(3, <<1, 1, 1>>, 1, FALSE, <<>>) >>,
        << [cap |-> c1, inputs |-> <<>>], [cap |-> 2, inputs |-> in2], [cap |-> 2, inputs |-> in3] >>,
        << [space |-> 2, children |-> <<>>], [space |-> 2, children |-> <<>>],
           [space |-> 2, children |-> <<>>] >>,
        Opt(<<>>, FALSE, "TSLACK", 12))
    : w1 \in {3, 4}, l1 \in WL, l2 \in WL, pr \in {"FSS", "SSP"}, c1 \in CAP1,
      in2 \in {<<>>, <<1>>}, in3 \in {<<>>, <<2>>, <<1>>} }

\* ---- FamPairs: several worker/facility pairs on one task -----------------------------------
\* one workplace with two facilities, three workers with differing skills / operating licences /
\* solo flags, individual absences of a worker and of a facility while allocated; task 1 needs
\* a facility (several pairs), task 2 does not.
FamPairs(WS, FSK, SOW, SOF, AB, ABF) ==
  { Cfg("pairs", 1,
        << [Task(6, 0, FALSE, 1, TRUE, 1, <<1>>, <<1>>, 0) EXCEPT !.wrule = wr, !.frule = fr],
           Task(2, 0, FALSE, 1, FALSE, 0, <<1>>, <<>>, 1) >>,
        <<>>, 1,
        << Worker(1, <<ws[1], 1>>, fsk[1], 1, sow[1], wab, 0),
           Worker(1, <<ws[2], 0>>, fsk[2], 2, sow[2], <<>>, 0),
           Worker(1, <<ws[3], 1>>, fsk[3], 3, sow[3], <<>>, 0) >>,
        << Facility(1, <<1, 0>>, 1, sof[1], fab), Facility(1, <<2, 0>>, 2, sof[2], <<>>) >>,
        << [cap |-> 2, inputs |-> <<>>] >>,
        << [space |-> 2, children |-> <<>>] >>,
        Opt(<<>>, FALSE, "TSLACK", 12))
    : ws \in WS, fsk \in [1..3 -> FSK], sow \in SOW, sof \in SOF, wab \in AB, fab \in ABF,
      wr \in {"SSP", "HSV"}, fr \in {"SSP", "HSV"} }

\* ---- FamFixed: fixed allocation lists --------------------------------------------------------
\* the layout of FamPairs; task 1 (needs a facility) and task 2 (plain) restrict their workers /
\* facilities by fixing_allocating_*_id_list: not set, empty, one listed, several listed
FixOff == [on |-> FALSE, l |-> <<>>]
FixOn(l) == [on |-> TRUE, l |-> l]
FamFixed(FW1, FF1, FW2, WS, FSK, AB) ==
  { Cfg("fixed", 1,
        << [Task(4, 0, FALSE, 1, TRUE, 1, <<1>>, <<1>>, 0)
              EXCEPT !.fixWon = fw1.on, !.fixW = fw1.l, !.fixFon = ff1.on, !.fixF = ff1.l, !.wrule = wr],
           [Task(2, 0, FALSE, 1, FALSE, 0, <<1>>, <<>>, 1) EXCEPT !.fixWon = fw2.on, !.fixW = fw2.l] >>,
        <<>>, 1,
        << Worker(1, <<ws[1], 1>>, fsk[1], 1, FALSE, wab, 0),
           Worker(1, <<ws[2], 1>>, fsk[2], 2, FALSE, <<>>, 0),
           Worker(1, <<ws[3], 1>>, fsk[3], 3, FALSE, <<>>, 0) >>,
        << Facility(1, <<1, 0>>, 1, FALSE, <<>>), Facility(1, <<2, 0>>, 2, FALSE, <<>>) >>,
        << [cap |-> 2, inputs |-> <<>>] >>,
        << [space |-> 2, children |-> <<>>] >>,
        Opt(<<>>, FALSE, "TSLACK", 12))
    : fw1 \in FW1, ff1 \in FF1, fw2 \in FW2, ws \in WS, fsk \in [1..3 -> FSK], wab \in AB,
      wr \in {"SSP", "HSV"} }

\* ---- FamHalf: fractional amounts (Q = 2: every number is a multiple of 1/2) -------------------
\* work 1/2 .. 2, skills 1/2, 1, 3/2, default progress 0 or 1/2: work that ends exactly at a step
\* boundary, overshoots it, or is half done before the start; dedicated workers, all kinds
FamHalf ==
  { Cfg("half", 2,
        [t \in 1..3 |-> [Task(w[t], IF t = 2 /\ w[t] % 2 = 0 THEN pg ELSE 0, FALSE, 2, FALSE, 0, <<1>>, <<>>, r[t] - 1)
                           EXCEPT !.rate = 2]],
        d, 1,
        [k \in 1..3 |-> PlainWorker([t \in 1..3 |-> IF t = k THEN s[k] ELSE 0], 1)],
        <<>>, <<>>, <<>>, Opt(al, FALSE, "TSLACK", 14))
    : w \in [1..3 -> {1, 2, 3, 4}], s \in {<<1, 2, 3>>, <<2, 2, 1>>, <<3, 1, 2>>}, pg \in {0, 2},
      r \in TwoOrders(3), al \in {<<>>, <<1>>},
      d \in {<<>>, <<<<1, 2, "FS">>, <<2, 3, "FS">>>>, <<<<1, 2, "SS">>, <<1, 3, "FF">>>>,
             <<<<1, 2, "FF">>, <<2, 3, "SF">>>>, <<<<2, 1, "SF">>, <<1, 3, "SS">>>>} }

\* ---- FamMainWp: main workplaces and the MW rule ---------------------------------------------
\* two workplaces with one facility each, two facility tasks on components of their own, three
\* workers whose main workplace is none / 1 / 2; worker rule MW or SSP
FamMainWp ==
  { Cfg("mainwp", 1,
        << [Task(2, 0, FALSE, 1, TRUE, 1, <<1>>, l1, 0) EXCEPT !.wrule = wr],
           [Task(2, 0, FALSE, 1, TRUE, 2, <<1>>, l2, 1) EXCEPT !.wrule = wr],
           [Task(w3, 0, FALSE, 1, FALSE, 0, <<1>>, <<>>, 2) EXCEPT !.wrule = wr] >>,
        d, 1,
        << Worker(1, <<sk[1], 1, 1>>, <<1, 1>>, 1, FALSE, <<>>, mw[1]),
           Worker(1, <<sk[2], 1, 1>>, <<1, 1>>, 2, FALSE, <<>>, mw[2]),
           Worker(1, <<sk[3], 1, 0>>, <<1, fl>>, 3, FALSE, <<>>, mw[3]) >>,
        << Facility(1, <<1, 1, 0>>, 1, FALSE, <<>>), Facility(2, <<1, 1, 0>>, 2, FALSE, <<>>) >>,
        << [cap |-> 2, inputs |-> <<>>], [cap |-> 2, inputs |-> <<>>] >>,
        << [space |-> 2, children |-> <<>>], [space |-> 2, children |-> <<>>] >>,
        Opt(<<>>, FALSE, "TSLACK", 12))
    : l1 \in {<<1>>, <<1, 2>>, <<2, 1>>}, l2 \in {<<2>>, <<2, 1>>}, w3 \in {1, 3},
      wr \in {"MW", "SSP", "VC"}, mw \in [1..3 -> {0, 1, 2}], sk \in {<<1, 1, 1>>, <<2, 1, 1>>}, fl \in {0, 1},
      d \in {<<>>, <<<<1, 2, "FS">>>>} }

\* ---- FamDue: due times (backward simulation with considering_due_time_of_tail_tasks) --------
FamDue ==
  { Cfg("due", 1,
        [t \in 1..3 |-> [PlainTask(w[t], r[t] - 1) EXCEPT !.due = du[t]]],
        d, 1,
        [k \in 1..3 |-> PlainWorker([t \in 1..3 |-> IF t = k THEN 1 ELSE 0], 1)],
        <<>>, <<>>, <<>>, Opt(<<>>, FALSE, "TSLACK", 14))
    : w \in [1..3 -> {1, 2}], du \in [1..3 -> {-1, 0, 3, 5}], r \in TwoOrders(3),
      d \in {<<>>, <<<<1, 2, "FS">>>>, <<<<1, 2, "FS">>, <<1, 3, "FS">>>>, <<<<1, 3, "FS">>, <<2, 3, "FS">>>>,
             <<<<1, 2, "SS">>>>, <<<<1, 2, "FF">>, <<2, 3, "FS">>>>} }

\* ---- FamAutoComp: automatic tasks bound to components ---------------------------------------
\* component 1 carries an automatic task (and, optionally, a facility task), component 2 a facility
\* task; two workplaces with one facility each; project absence with and without the auto flag
FamAutoComp ==
  { Cfg("autocomp", 1,
        << Task(w1, 0, TRUE, 1, FALSE, 1, <<1>>, l1, 0),
           Task(2, 0, FALSE, 1, TRUE, c2, <<1>>, <<1, 2>>, 1),
           Task(1, 0, au3, 1, FALSE, 2, <<1>>, <<2>>, 2) >>,
        d, 1,
        << Worker(1, <<1, 1, 1>>, <<1, 1>>, 1, FALSE, <<>>, 0), Worker(1, <<0, 1, 1>>, <<1, 1>>, 2, FALSE, <<>>, 0) >>,
        << Facility(1, <<1, 1, 1>>, 1, FALSE, <<>>), Facility(2, <<1, 1, 1>>, 2, FALSE, <<>>) >>,
        << [cap |-> cap, inputs |-> <<>>], [cap |-> 2, inputs |-> inp] >>,
        << [space |-> 2, children |-> <<>>], [space |-> sp2, children |-> <<>>] >>,
        Opt(al, aa, "TSLACK", 14))
    : w1 \in {1, 3}, l1 \in {<<1>>, <<2, 1>>, <<>>}, c2 \in {1, 2}, au3 \in BOOLEAN, cap \in {2, 4}, sp2 \in {1, 2},
      inp \in {<<>>, <<1>>}, al \in {<<>>, <<1>>, <<0, 2>>}, aa \in BOOLEAN,
      d \in {<<>>, <<<<1, 2, "FS">>>>, <<<<2, 1, "SS">>>>, <<<<1, 3, "FF">>>>} }

\* ---- FamNest2: an assembly with two parts ---------------------------------------------------
\* component 1 is the parent of components 2 and 3; the parts are worked on at workplace 1 (two
\* facilities), the assembly at workplace 2 (or at either); the parts leave workplace 1 with the
\* assembly
FamNest2 ==
  { Cfg("nest2", 1,
        << Task(w[1], 0, FALSE, 1, TRUE, 2, <<1>>, <<1>>, 0),
           Task(w[2], 0, FALSE, 1, TRUE, 3, <<1>>, <<1>>, 1),
           Task(w[3], 0, FALSE, 1, TRUE, 1, <<1>>, l3, 2) >>,
        d, 1,
        << Worker(1, <<1, 1, 1>>, <<1, 1, 1>>, 1, FALSE, <<>>, 0), Worker(1, <<1, 1, 1>>, <<1, 1, 1>>, 1, FALSE, <<>>, 0),
           Worker(1, <<1, 1, 1>>, <<1, 1, 1>>, 1, FALSE, <<>>, 0) >>,
        << Facility(1, <<1, 1, 1>>, 1, FALSE, <<>>), Facility(1, <<1, 1, 1>>, 1, FALSE, <<>>), Facility(2, <<1, 1, 1>>, 1, FALSE, <<>>) >>,
        << [cap |-> cap1, inputs |-> <<>>], [cap |-> 8, inputs |-> inp] >>,
        << [space |-> 2, children |-> <<2, 3>>], [space |-> sp, children |-> <<>>], [space |-> sp, children |-> <<>>] >>,
        Opt(<<>>, FALSE, "TSLACK", 14))
    : w \in [1..3 -> {2, 3}], l3 \in {<<2>>, <<2, 1>>, <<1, 2>>}, cap1 \in {4, 8}, sp \in {1, 2}, inp \in {<<>>, <<1>>},
      d \in {<<<<1, 3, "FS">>, <<2, 3, "FS">>>>, <<<<1, 3, "FS">>>>, <<<<1, 3, "SS">>, <<2, 3, "FS">>>>, <<>>} }

\* ---- FamDag: a component with two parents ----------------------------------------------------
FamDag ==
  { Cfg("dag", 1,
        << Task(w[1], 0, FALSE, 1, FALSE, 1, <<1>>, <<1, 2>>, 0),
           Task(w[2], 0, FALSE, 1, FALSE, 2, <<1>>, <<2, 1>>, 1),
           Task(w[3], 0, FALSE, 1, nf, 3, <<1>>, <<1, 2>>, 2) >>,
        d, 1,
        << Worker(1, <<1, 1, 1>>, <<1, 1>>, 1, FALSE, <<>>, 0), Worker(1, <<1, 1, 1>>, <<1, 1>>, 2, FALSE, <<>>, 0) >>,
        << Facility(1, <<1, 1, 1>>, 1, FALSE, <<>>), Facility(2, <<1, 1, 1>>, 1, FALSE, <<>>) >>,
        << [cap |-> 6, inputs |-> <<>>], [cap |-> 6, inputs |-> <<>>] >>,
        << [space |-> 1, children |-> <<3>>], [space |-> 1, children |-> <<3>>], [space |-> 1, children |-> <<>>] >>,
        Opt(<<>>, FALSE, "TSLACK", 12))
    : w \in [1..3 -> {1, 2}], nf \in BOOLEAN, d \in {<<>>, <<<<3, 1, "FS">>>>, <<<<1, 2, "FS">>>>} }

\* ---- FamWatch: a component that follows tasks handed to its constructor -------------------
FamWatch ==
  { Cfg("watch", 1,
        << Task(w[1], p1, FALSE, 1, FALSE, 0, <<1>>, <<>>, 0),
           Task(w[2], 0, FALSE, 1, FALSE, 2, <<1>>, <<1>>, 1),
           Task(w[3], 0, au, 1, FALSE, 0, <<1>>, <<>>, 2) >>,
        d, 1,
        << PlainWorker(<<1, 1, 1>>, 1), PlainWorker(<<0, 1, 1>>, 2) >>,
        << Facility(1, <<1, 1, 1>>, 1, FALSE, <<>>) >>,
        << [cap |-> 4, inputs |-> <<>>] >>,
        << [space |-> 1, children |-> <<>>, watch |-> wl], [space |-> 1, children |-> <<>>, watch |-> <<>>] >>,
        Opt(al, FALSE, "TSLACK", 12))
    : w \in [1..3 -> {1, 2}], p1 \in {0, 4}, au \in BOOLEAN, wl \in {<<1>>, <<1, 3>>, <<3>>},
      d \in {<<>>, <<<<1, 3, "FS">>>>, <<<<2, 1, "FS">>>>}, al \in {<<>>, <<1>>} }

\* ---- FamEdge: unusual inputs --------------------------------------------------------------
\* tasks that share a name (hence skills), no workers at all, a team without workers, a task
\* without a team, zero work / zero skill / zero cost everywhere, a single task, a long chain
EdgeTask(work, rank, teams) == Task(work, 0, FALSE, 1, FALSE, 0, teams, <<>>, rank)
FamEdge ==
  \* (a) task 2 carries the name of task 1: workers skilled for "t1" serve both
  { Cfg("edge-alias", 1,
        << EdgeTask(w[1], 0, <<1>>), EdgeTask(w[2], 1, <<1>>) @@ [alias |-> 1], EdgeTask(w[3], 2, <<1>>) >>,
        d, 1, << PlainWorker(<<s1, 2, 0>>, 1), PlainWorker(<<0, 0, 1>>, 2) >>, <<>>, <<>>, <<>>,
        Opt(<<>>, FALSE, rule, 12))
    : w \in [1..3 -> {1, 2}], s1 \in {1, 2}, rule \in {"TSLACK", "SPT", "FIFO"},
      d \in {<<>>, <<<<1, 2, "FS">>>>, <<<<1, 2, "SS">>, <<2, 3, "FF">>>>} }
  \cup
  \* (b) no workers / an empty second team / a task without a team / auto tasks only
  { Cfg("edge-empty", 1,
        << Task(w1, 0, au, 1, FALSE, 0, tm, <<>>, 0), Task(1, 0, TRUE, 1, FALSE, 0, <<>>, <<>>, 1) >>,
        d, 2, ws, <<>>, <<>>, <<>>, Opt(al, aa, "TSLACK", 8))
    : w1 \in {0, 1, 2}, au \in BOOLEAN, tm \in {<<>>, <<1>>, <<2>>, <<1, 2>>},
      ws \in {<<>>, << Worker(1, <<1, 1>>, <<>>, 1, FALSE, <<>>, 0) >>},
      d \in {<<>>, <<<<2, 1, "FS">>>>, <<<<1, 2, "SS">>>>}, al \in {<<>>, <<0, 1>>}, aa \in BOOLEAN }
  \cup
  \* (c) zeros everywhere: zero work, zero skill, zero cost; a single task
  { Cfg("edge-zero", 1,
        [t \in 1..n |-> EdgeTask(wk, t - 1, <<1>>)],
        IF n = 1 THEN <<>> ELSE <<<<1, 2, k>>>>, 1,
        << PlainWorker([t \in 1..n |-> sk], 0) >>, <<>>, <<>>, <<>>, Opt(<<>>, FALSE, "TSLACK", 6))
    : n \in {1, 2}, wk \in {0, 1}, sk \in {0, 1}, k \in Kinds }
  \cup
  \* (d) a chain of six tasks with one shared worker and one kind of link
  { Cfg("edge-chain", 1,
        [t \in 1..6 |-> EdgeTask(IF t = z THEN 0 ELSE 1, (t * 5) % 7, <<1>>)],
        [i \in 1..5 |-> <<i, i + 1, k>>], 1,
        << PlainWorker([t \in 1..6 |-> 1], 1), PlainWorker([t \in 1..6 |-> IF t % 2 = 0 THEN 2 ELSE 0], 2) >>,
        <<>>, <<>>, <<>>, Opt(al, FALSE, rule, 20))
    : z \in {0, 3, 6}, k \in Kinds, al \in {<<>>, <<2, 3>>}, rule \in {"TSLACK", "LRPT"} }

\* ---- FamSort: inputs of the four sorting functions ---------------------------------------
\* A sort case is a small cfg (only the lists the function looks at are populated), the
\* function, the rule mode, the task whose name is passed (t) and the target workplace (p),
\* plus - for task lists - the PERT / log values the task keys read.
MiniTasks(n) == [t \in 1..n |-> PlainTask(1, t - 1)]
SortCase(fn, mode, t, p, c, vals) == [fn |-> fn, mode |-> mode, t |-> t, p |-> p, cfg |-> c, vals |-> vals]
NoVals == [est |-> <<>>, lst |-> <<>>, rem |-> <<>>, rc |-> <<>>, cpl |-> 0, avail |-> <<>>, absent |-> <<>>]

SortWorkerCases(n, S1, S2, C, M) ==
  { SortCase("worker", mode, 1, p,
             Cfg("sortw", 1, MiniTasks(2), <<>>, 1,
                 [i \in 1..n |-> Worker(1, <<w[i][1], w[i][2]>>, <<>>, w[i][3], FALSE, <<>>, w[i][4])],
                 <<>>, <<[cap |-> 2, inputs |-> <<>>], [cap |-> 2, inputs |-> <<>>]>>, <<>>,
                 Opt(<<>>, FALSE, "TSLACK", 5)), NoVals)
    : w \in [1..n -> S1 \X S2 \X C \X M], mode \in WorkerRules, p \in {0, 1} }

SortFacilityCases(n, S1, S2, C) ==
  { SortCase("facility", mode, 1, 0,
             Cfg("sortf", 1, MiniTasks(2), <<>>, 1, <<>>,
                 [i \in 1..n |-> Facility(1, <<f[i][1], f[i][2]>>, f[i][3], FALSE, <<>>)],
                 <<[cap |-> 2, inputs |-> <<>>]>>, <<>>, Opt(<<>>, FALSE, "TSLACK", 5)), NoVals)
    : f \in [1..n -> S1 \X S2 \X C], mode \in WorkerRules }

SortTaskCases(n, V, W) ==
  { SortCase("task", mode, 0, 0,
             Cfg("sortt", 1, [t \in 1..n |-> PlainTask(x[t][3], t - 1)], <<>>, 1, <<>>, <<>>, <<>>, <<>>,
                 Opt(<<>>, FALSE, mode, 5)),
             [est |-> [t \in 1..n |-> x[t][1]], lst |-> [t \in 1..n |-> x[t][2]],
              rem |-> [t \in 1..n |-> 3 - x[t][3]], rc |-> [t \in 1..n |-> x[t][2]], cpl |-> 3,
              avail |-> <<>>, absent |-> <<>>])
    : x \in [1..n -> V \X V \X W], mode \in TaskRules }

SortWorkplaceCases(n, A, S) ==
  { SortCase("workplace", mode, 1, 0,
             Cfg("sortp", 1, MiniTasks(1), <<>>, 1, <<>>,
                 [i \in 1..(2 * n) |-> Facility((i + 1) \div 2, <<x[(i + 1) \div 2][IF i % 2 = 1 THEN 2 ELSE 3]>>, 1, FALSE, <<>>)],
                 [i \in 1..n |-> [cap |-> 4, inputs |-> <<>>]], <<>>, Opt(<<>>, FALSE, "TSLACK", 5)),
             [est |-> <<>>, lst |-> <<>>, rem |-> <<>>, rc |-> <<>>, cpl |-> 0,
              avail |-> [i \in 1..n |-> x[i][1]], absent |-> ab])
    \* ab: facilities whose state is ABSENCE when the function is called (the documented keys
    \* do not depend on it)
    : x \in [1..n -> A \X S \X S], mode \in {"FSS", "SSP"}, ab \in {<<>>, <<1>>, <<2, 3>>} }

SortFamily(tier) ==
  IF tier = 1
  THEN SortWorkerCases(2, {-1, 0, 1, 2}, {0}, {0, 1}, {0, 1, 2})
       \cup SortWorkerCases(3, {-1, 2}, {0}, {0, 1}, {0, 1})
       \cup SortFacilityCases(3, {-1, 0, 2}, {0, 1}, {0, 1})
       \cup SortTaskCases(3, {0, 1}, {1, 2})
       \cup SortWorkplaceCases(2, {0, 1, 2}, {-1, 0, 1})
       \cup SortWorkplaceCases(3, {0, 1}, {0, 1})
  \* (about 135 000 cases; the first tier-2 bounds gave 920 000, whose export alone took hours)
  ELSE SortWorkerCases(3, {-1, 0, 2}, {0, 1}, {0, 1}, {0, 1})
       \cup SortFacilityCases(3, {-1, 0, 1, 2}, {0, 1}, {0, 1})
       \cup SortTaskCases(3, {0, 1, 2}, {1, 2})
       \cup SortWorkplaceCases(3, {0, 1, 2}, {0, 1})
       \cup SortWorkplaceCases(2, {0, 1, 2}, {-1, 0, 1})

\* ---- FamReport: inputs of the reporting functions (C19) ---------------------------------
SeqsUpTo(A, n) == UNION { [1..k -> A] : k \in 0..n }
TaskAlphabet == {"NONE", "READY", "WORKING", "FINISHED"}
ResAlphabet == {"FREE", "WORKING", "ABSENCE"}
AlphabetOf(cls) == IF cls \in {"task", "component"} THEN TaskAlphabet ELSE ResAlphabet
GanttCases(n) ==
  { [fn |-> "gantt", cls |-> cls, log |-> lg, m2 |-> m]
    : cls \in {"task", "component"}, lg \in SeqsUpTo(TaskAlphabet, n), m \in 0..2 }
  \cup { [fn |-> "gantt", cls |-> cls, log |-> lg, m2 |-> m]
    : cls \in {"worker", "facility"}, lg \in SeqsUpTo(ResAlphabet, n + 1), m \in 0..2 }
RowCases(n) ==
  { [fn |-> "rows", cls |-> cls, log |-> lg, m2 |-> m, unit |-> u, viewReady |-> v]
    : cls \in {"task", "component"}, lg \in SeqsUpTo(TaskAlphabet, n), m \in {0, 2}, u \in {2, 60, 86400},
      v \in BOOLEAN }
  \cup { [fn |-> "rows", cls |-> cls, log |-> lg, m2 |-> m, unit |-> u, viewReady |-> v]
    : cls \in {"worker", "facility"}, lg \in SeqsUpTo(ResAlphabet, n), m \in {1, 2}, u \in {2, 60},
      v \in BOOLEAN }
ExtractCases(n, BA) ==
  { [fn |-> "extract", cls |-> cls, logs |-> <<a, b, <<>> >>, state |-> s, times |-> t]
    : cls \in {"task", "component"}, a \in [1..n -> TaskAlphabet], b \in [1..(n - 1) -> BA],
      s \in TaskAlphabet, t \in {<<>>, <<0>>, <<1>>, <<0, 1>>, <<1, 2>>, <<0, 2>>, <<2, 0>>, <<n - 1>>, <<n>>, <<0, n + 3>>} }
  \cup { [fn |-> "extract", cls |-> cls, logs |-> <<a, b, <<>> >>, state |-> s, times |-> t]
    : cls \in {"worker", "facility"}, a \in [1..n -> ResAlphabet], b \in [1..(n - 1) -> ResAlphabet],
      s \in {"FREE", "WORKING"}, t \in {<<>>, <<0>>, <<1>>, <<0, 1>>, <<1, 2>>, <<0, 2>>, <<n - 1>>, <<n>>} }
\* time lists that are unsorted / not contiguous but whose ends span exactly their length
ExtractCases2 ==
  { [fn |-> "extract", cls |-> cls, logs |-> <<a, b, <<>> >>, state |-> s, times |-> t]
    : cls \in {"task", "component"}, a \in [1..4 -> {"READY", "WORKING"}], b \in [1..4 -> {"READY", "WORKING"}],
      s \in {"READY", "WORKING"}, t \in {<<1, 0, 3>>, <<0, 3, 2>>, <<3, 1>>, <<0, 2, 3>>, <<2, 0, 1, 3>>} }
LastDateCases ==
  { [fn |-> "lastdate", time |-> tm, unit |-> u, last |-> d]
    : tm \in 0..5, u \in {1, 60, 86400}, d \in {0, 86400, 1000000} }
ReportFamily(tier) ==
  IF tier = 1 THEN GanttCases(4) \cup RowCases(3) \cup ExtractCases(3, {"READY", "WORKING"}) \cup ExtractCases2
                       \cup LastDateCases
  ELSE GanttCases(6) \cup RowCases(4) \cup ExtractCases(3, TaskAlphabet) \cup ExtractCases2 \cup LastDateCases

\* ---- FamSub: parent projects around one sub-project task (C20) -----------------------------
\* Q = su (sub-project unit seconds) so that the configured rate pu/su and work D are integers
\* in units of 1/Q; the harness fills in work and rate of task 2 from what the library configures.
\* position: 1 head, 2 after an FS predecessor, 3 between predecessor and successor, 4 SS successor
FamSub(U, PABS) ==
  { Cfg("sub", su,
        << Task(2 * su, 0, FALSE, su, FALSE, 0, <<1>>, <<>>, 0),
           [Task(0, 0, TRUE, 0, FALSE, 0, <<>>, <<>>, 1) EXCEPT !.sub = TRUE],
           Task(su, 0, FALSE, su, FALSE, 0, <<1>>, <<>>, 2) >>,
        CASE pos = 1 -> <<<<2, 3, "FS">>>>
          [] pos = 2 -> <<<<1, 2, "FS">>>>
          [] pos = 3 -> <<<<1, 2, "FS">>, <<2, 3, "FS">>>>
          [] pos = 4 -> <<<<1, 2, "SS">>>>,
        1, << PlainWorker(<<su, 0, su>>, 1) >>, <<>>, <<>>, <<>>,
        Opt(pabs, FALSE, "TSLACK", 60)) @@ [units |-> <<su, pu>>]
    : su \in U, pu \in U, pos \in 1..4, pabs \in PABS }

\* ---- the named families and their bounds per tier -------------------------------------
Family(name, tier) ==
  CASE name = "deps"  -> IF tier = 1
                         THEN FamDeps(3, {1, 2}, {1, 2}, {"TSLACK"}, {FALSE}, FALSE)
                         ELSE FamDeps(3, {1, 2, 3}, {1, 2}, {"TSLACK", "FIFO"}, {FALSE, TRUE}, TRUE)
    \* 4 tasks: every dependency map over the five pairs (1,2) (2,3) (3,4) (1,3) (2,4)
    [] name = "deps4" -> FamDeps4
    [] name = "alloc" -> IF tier = 1
                         THEN FamAlloc({<<<<1, 2>>, <<1, 2>>, <<1>>>>}, {0, 1}, {-1, 1, 2},
                                       {<<FALSE, FALSE>>, <<TRUE, FALSE>>, <<FALSE, TRUE>>},
                                       {<<>>, <<1, 2>>}, {<<>>},
                                       {"TSLACK", "SPT"}, {"SSP", "HSV"})
                         ELSE FamAlloc({<<<<1, 2>>, <<1, 2>>, <<1, 2>>>>, <<<<1>>, <<1, 2>>, <<1, 2>>>>,
                                        <<<<1, 2>>, <<1, 2>>, <<1>>>>}, {-1, 0, 1}, {0, 1, 2},
                                       {<<FALSE, FALSE>>, <<TRUE, FALSE>>, <<FALSE, TRUE>>},
                                       {<<>>, <<1, 2>>}, {<<>>, <<<<1, 2, "FS">>>>},
                                       {"TSLACK", "LPT", "FIFO"}, {"SSP", "HSV", "VC"})
    [] name = "abs"   -> IF tier = 1
                         THEN FamAbsence({<<>>, <<0>>, <<1, 2>>, <<0, 3, 30>>})
                         ELSE FamAbsence({<<>>, <<0>>, <<1>>, <<1, 2>>, <<0, 1, 2>>, <<2, 4>>,
                                          <<0, 3, 30>>, <<5, 6, 7>>})
    [] name = "conveyor" -> IF tier = 1
                            THEN FamConveyor({<<1, 3>>, <<3, 1>>, <<1, 2, 3>>, <<2, 3>>}, {2, 4})
                            ELSE FamConveyor({<<1, 3>>, <<3, 1>>, <<1, 2, 3>>, <<3, 2, 1>>, <<2, 3>>, <<1, 2>>, <<1>>}, {2, 3, 4})
    [] name = "pairs" -> IF tier = 1
                         THEN FamPairs({<<1, 2, 1>>, <<2, 1, 1>>}, {<<1, 1>>, <<1, 0>>},
                                       {<<FALSE, FALSE, FALSE>>, <<FALSE, TRUE, FALSE>>, <<TRUE, FALSE, FALSE>>, <<FALSE, FALSE, TRUE>>},
                                       {<<FALSE, FALSE>>, <<TRUE, FALSE>>, <<FALSE, TRUE>>}, {<<>>, <<2, 1>>}, {<<>>, <<0>>, <<2, 1>>})
                         ELSE FamPairs({<<1, 2, 1>>, <<2, 1, 1>>, <<1, 1, 2>>, <<2, 2, 2>>}, {<<1, 1>>, <<1, 0>>, <<0, 1>>},
                                       [1..3 -> BOOLEAN], [1..2 -> BOOLEAN], {<<>>, <<0>>, <<1>>, <<2, 1>>}, {<<>>, <<0>>, <<1>>, <<2, 1>>})
    [] name = "fixed" -> IF tier = 1
                         THEN FamFixed({FixOff, FixOn(<<>>), FixOn(<<1>>), FixOn(<<2, 3>>)}, {FixOff, FixOn(<<2>>), FixOn(<<1>>)},
                                       {FixOff, FixOn(<<3>>), FixOn(<<1, 2>>)}, {<<1, 1, 1>>, <<2, 1, 1>>},
                                       {<<1, 1>>, <<1, 0>>, <<0, 1>>}, {<<>>, <<1>>})
                         ELSE FamFixed({FixOff, FixOn(<<>>), FixOn(<<1>>), FixOn(<<2>>), FixOn(<<2, 3>>), FixOn(<<3, 1>>)},
                                       {FixOff, FixOn(<<>>), FixOn(<<2>>), FixOn(<<1>>), FixOn(<<2, 1>>)},
                                       {FixOff, FixOn(<<>>), FixOn(<<3>>), FixOn(<<1, 2>>)}, {<<1, 1, 1>>, <<2, 1, 1>>, <<1, 1, 2>>},
                                       {<<1, 1>>, <<1, 0>>, <<0, 1>>}, {<<>>, <<1>>, <<0, 2>>})
    [] name = "nest2"  -> FamNest2
    [] name = "autocomp" -> FamAutoComp
    [] name = "half"   -> FamHalf
    [] name = "mainwp" -> FamMainWp
    [] name = "due"    -> FamDue
    [] name = "dag"   -> FamDag
    [] name = "edge"  -> FamEdge
    [] name = "watch" -> FamWatch
    \* two dependencies between the same pair of tasks
    [] name = "deps2" -> { Cfg("deps2", 1, [t \in 1..3 |-> PlainTask(w[t], r[t] - 1)],
                                <<<<1, 2, kk[1]>>, <<1, 2, kk[2]>>>> \o d23 \o d13, 1,
                                [k \in 1..3 |-> PlainWorker([t \in 1..3 |-> IF t = k THEN s ELSE 0], 1)],
                                <<>>, <<>>, <<>>, Opt(<<>>, FALSE, "TSLACK", 12))
                           : kk \in { p \in Kinds \X Kinds : p[1] # p[2] }, w \in [1..3 -> {1, 2}], s \in {1, 2},
                             r \in TwoOrders(3),
                             d23 \in {<<>>} \cup { <<<<2, 3, k>>>> : k \in Kinds },
                             d13 \in {<<>>, <<<<1, 3, "FS">>>>} }
    [] name = "sub"   -> IF tier = 1 THEN FamSub({1, 2, 3, 5, 60}, {<<>>, <<1>>})
                         ELSE FamSub({1, 2, 3, 5, 7, 60}, {<<>>, <<1>>, <<0, 2>>, <<3, 4>>})
    [] name = "pert"  -> IF tier = 1 THEN FamPert(3, {0, 1, 2}) \cup FamPert(4, {1, 2})
                         ELSE FamPert(4, {0, 1, 2}) \cup FamPert(5, {1})
    [] name = "place" -> IF tier = 1 THEN FamPlace({2, 3}, {1, 2}, {0, 1, 2}, {<<>>, <<2>>})
                         ELSE FamPlace({2, 3, 4}, {1, 2}, {0, 1, 2}, {<<>>, <<2>>})
    \* flat products (no known placement finding applies), components with one or two tasks
    [] name = "placeflat" -> IF tier = 1 THEN FamPlace({2, 3}, {1, 2}, {0, 1, 2}, {<<>>})
                             ELSE FamPlace({1, 2, 3, 4}, {1, 2, 3}, {0, 1, 2}, {<<>>})
=============================================================================
