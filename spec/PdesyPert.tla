---------------------------- MODULE PdesyPert ----------------------------
(***************************************************************************)
(* PERT/CPM.                                                               *)
(*  (i)  Declarative critical-path values for finish-to-start networks     *)
(*       (longest chains), the oracle of C12.                              *)
(*  (ii) The implementation-shaped computation of                          *)
(*       BaseWorkflow.update_PERT_data: wave propagation over *sets* of    *)
(*       tasks (visited in ascending cfg rank, the order the harness       *)
(*       forces) with the code's update rules.                             *)
(* All values in units of 1/Q; `time` is the step number.                  *)
(***************************************************************************)
EXTENDS PdesySort

\* ---------------- (i) declarative CPM (FS networks) ------------------------
RECURSIVE LongestPredChain(_, _, _)
\* longest sum of remaining work over chains of FS predecessors ending just before t
LongestPredChain(cfg, rem, t) ==
  LET P == AllPreds(cfg, t)
  IN IF P = {} THEN 0
     ELSE Max({ LongestPredChain(cfg, rem, p) + rem[p] : p \in P })

CpmEst(cfg, rem, time, t) == time * cfg.Q + LongestPredChain(cfg, rem, t)
CpmEft(cfg, rem, time, t) == CpmEst(cfg, rem, time, t) + rem[t]
CpmCpl(cfg, rem, time) ==
  Max({ CpmEft(cfg, rem, time, t) : t \in { u \in Tasks(cfg) : AllSuccs(cfg, u) = {} } })
RECURSIVE CpmLft(_, _, _, _)
CpmLft(cfg, rem, time, t) ==
  LET S == AllSuccs(cfg, t)
  IN IF S = {} THEN CpmCpl(cfg, rem, time)
     ELSE Min({ CpmLft(cfg, rem, time, s) - rem[s] : s \in S })
CpmLst(cfg, rem, time, t) == CpmLft(cfg, rem, time, t) - rem[t]

\* ---------------- (ii) the code's wave propagation --------------------------
ByRank(cfg, S) == StableSortBy(SetToSeq(S), TaskRank(cfg))
\* SetToSeq picks some order; ranks are distinct (CfgOK of the families), so the
\* result is the ascending-rank order whatever it picks.

\* one forward relaxation along edge e = <<inp, nxt, kind>>
FwdEdge(cfg, st, e) ==
  LET inp == e[1]  nxt == e[2]  k == e[3]
      est == IF k = "FS" THEN st.est[inp] + st.rem[inp] ELSE st.est[inp]
      e0  == est + st.rem[nxt]
      eft == CASE k = "FF" -> Max2(e0, st.eft[inp])
               [] k = "SF" -> Max2(e0, st.est[inp])
               [] OTHER    -> e0
  \* on equal earliest start the larger earliest finish wins (order independent; the pinned
  \* code took whichever predecessor the set yielded last - D20, repaired by a fix commit)
  IN IF est > st.est[nxt] \/ (est = st.est[nxt] /\ eft > st.eft[nxt])
     THEN [st EXCEPT !.est[nxt] = est, !.eft[nxt] = eft]
     ELSE st

RECURSIVE FwdWaves(_, _, _)
FwdWaves(cfg, st, S) ==
  IF S = {} THEN st
  ELSE LET edges == FoldLeft(LAMBDA a, t: a \o OutEdges(cfg, t), <<>>, ByRank(cfg, S))
           st2   == FoldLeft(LAMBDA s, e: FwdEdge(cfg, s, e), st, edges)
       IN FwdWaves(cfg, st2, { e[2] : e \in ToSet(edges) })

\* __set_est_eft_data
PertForward(cfg, st) ==
  LET T0 == st.time * cfg.Q
      heads == { t \in Tasks(cfg) : Len(InEdges(cfg, t)) = 0 }
      st1 == [st EXCEPT !.est = [t \in Tasks(cfg) |-> T0],
                        !.eft = [t \in Tasks(cfg) |-> T0 + st.rem[t]]]
  IN FwdWaves(cfg, st1, heads)

\* one backward relaxation along edge e = <<prv, out, kind>> (out is being visited).
\* The stored lft is overwritten when unset (< 0) or not smaller than the new one.
BwdEdge(cfg, st, e) ==
  LET prv == e[1]  out == e[2]  k == e[3]
      lftFS == st.lst[out]
      lstX  == st.lst[out]
      lft == CASE k = "FS" -> lftFS
               [] k = "FF" -> Min2(lstX + st.rem[prv], st.lft[out])
               [] OTHER    -> lstX + st.rem[prv]
      lst == CASE k = "FS" -> lftFS - st.rem[prv]
               [] k = "SF" -> IF st.lft[out] < lstX THEN st.lft[out] ELSE lstX
               [] OTHER    -> lstX
  \* on equal latest finish the smaller latest start wins (order independent)
  IN IF st.lft[prv] < 0 \/ st.lft[prv] > lft \/ (st.lft[prv] = lft /\ lst < st.lst[prv])
     THEN [st EXCEPT !.lst[prv] = lst, !.lft[prv] = lft]
     ELSE st

RECURSIVE BwdWaves(_, _, _)
BwdWaves(cfg, st, S) ==
  IF S = {} THEN st
  ELSE LET edges == FoldLeft(LAMBDA a, t: a \o InEdges(cfg, t), <<>>, ByRank(cfg, S))
           st2   == FoldLeft(LAMBDA s, e: BwdEdge(cfg, s, e), st, edges)
       IN BwdWaves(cfg, st2, { e[1] : e \in ToSet(edges) })

\* __set_lst_lft_criticalpath_data
PertBackward(cfg, st) ==
  LET tails == { t \in Tasks(cfg) : Len(OutEdges(cfg, t)) = 0 }
      cpl == Max({ st.eft[t] : t \in tails })
      \* lst/lft are reset to the unset marker -1.0 first (fix of D4: the pinned code kept
      \* the values stored by earlier calls)
      st1 == [st EXCEPT !.cpl = cpl,
                        !.lft = [t \in Tasks(cfg) |-> IF t \in tails THEN cpl ELSE 0 - cfg.Q],
                        !.lst = [t \in Tasks(cfg) |->
                                   IF t \in tails THEN cpl - st.rem[t] ELSE 0 - cfg.Q]]
  IN BwdWaves(cfg, st1, tails)

\* update_PERT_data(time)
PertF(cfg, st) == PertBackward(cfg, PertForward(cfg, st))
=============================================================================
