---------------------------- MODULE MC_PdesyFile ----------------------------
(***************************************************************************)
(* The same model-checking instance as MC_Pdesy, but the family of models  *)
(* is read from a file (IOEnv.CFG_FILE: a JSON array of cfg records) - the  *)
(* seeded random models beyond the exhaustive bounds that the harness also *)
(* runs on the real code.  It validates the property clauses (the oracle)   *)
(* on the specification for those larger models.                           *)
(***************************************************************************)
EXTENDS Json, IOUtils
CONSTANTS FAMILY, TIER
VARIABLES cfg, st, lg, pc, b, k
FileCfgs == JsonDeserialize(IOEnv.CFG_FILE)
M == INSTANCE MC_Pdesy
Init ==
  /\ cfg \in { FileCfgs[i] : i \in DOMAIN FileCfgs }
  /\ st = M!InitF(cfg)
  /\ lg = M!EmptyLogs(cfg)
  /\ pc = "init"
  /\ b = M!InitF(cfg)
  /\ k = 0
Spec == Init /\ [][M!Next]_M!vars /\ WF_<<cfg, st, lg, pc, b, k>>(M!Next)
Inv_C01 == M!Inv_C01
Inv_C02 == M!Inv_C02
Inv_C03 == M!Inv_C03
Inv_C04 == M!Inv_C04
Inv_C05 == M!Inv_C05
Inv_C06 == M!Inv_C06
Inv_C07 == M!Inv_C07
Inv_C08 == M!Inv_C08
Inv_C10 == M!Inv_C10
Inv_C12 == M!Inv_C12
Inv_C14 == M!Inv_C14
RunAgrees == M!RunAgrees
Prop_C01 == M!Prop_C01
Prop_C02 == M!Prop_C02
Prop_C03 == M!Prop_C03
Prop_C04 == M!Prop_C04
Prop_C06 == M!Prop_C06
Prop_C10 == M!Prop_C10
Prop_C11 == M!Prop_C11
Prop_C14 == M!Prop_C14
=============================================================================
