---------------------------- MODULE Gen_Families ----------------------------
(* Exports a family of PdesyFamilies as ndjson (one cfg per line) for the harness. *)
EXTENDS PdesyFamilies, Json, IOUtils, TLC
CONSTANTS FAMILY, TIER
ASSUME ndJsonSerialize(IOEnv.OUT_FILE, SetToSeq(Family(FAMILY, TIER)))
VARIABLE x
Init == x = 0
Next == FALSE /\ x' = x
=============================================================================
