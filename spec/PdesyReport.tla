---------------------------- MODULE PdesyReport ----------------------------
(***************************************************************************)
(* Reporting functions of pDESy as functions of the logs (C19):            *)
(* get_time_list_for_gannt_chart (run-length encoding of a state log),     *)
(* create_data_for_gantt_plotly (chart rows), extract_*_list (state        *)
(* queries) and set_last_datetime.                                         *)
(*                                                                         *)
(* Lengths and margins are in units of 1/2 step (margins 0, 1/2, 1);       *)
(* dates are seconds relative to init_datetime.                            *)
(***************************************************************************)
EXTENDS PdesyApi

\* maximal runs of state s in log: <<start index (0-based), number of steps>>
RunStarts(log, s) == { i \in DOMAIN log : log[i] = s /\ (i = 1 \/ log[i - 1] # s) }
RunLen(log, s, i) == Max({ k \in 1..(Len(log) - i + 1) : \A j \in i..(i + k - 1): log[j] = s })
Runs(log, s) ==
  LET starts == SetToSortSeq(RunStarts(log, s), <)
  IN [n \in DOMAIN starts |-> <<starts[n] - 1, RunLen(log, s, starts[n])>>]
\* what the Gantt encoders return: (from, length) with length = steps - 1 + margin
Intervals(log, s, m2) ==
  LET r == Runs(log, s) IN [n \in DOMAIN r |-> <<r[n][1], 2 * (r[n][2] - 1) + m2>>]
\* chart rows: <<start seconds, finish seconds>> for unit length u (seconds per step)
Rows(log, s, m2, u) ==
  LET iv == Intervals(log, s, m2)
  IN [n \in DOMAIN iv |-> <<iv[n][1] * u, ((2 * iv[n][1] + iv[n][2]) * u) \div 2>>]
\* extract_*_list: indices of the objects whose log shows s at all the given times
Extract(logs, s, times) ==
  { i \in DOMAIN logs : \A t \in ToSet(times): t + 1 <= Len(logs[i]) /\ logs[i][t + 1] = s }
\* ---- structural graph (get_networkx_graph) ----------------------------------------------------
\* Nodes are named by kind and index ("T1", "C2", "M1" team, "P1" workplace, "W1", "F1").  The
\* harness builds every model with team 1 as parent of the other teams and workplace 1 as parent
\* of the other workplaces (harness/build.py), which the graph shows as edges.
Nm(kind, i) == kind \o ToString(i)
GraphNodes(cfg, viewW, viewF) ==
  { Nm("T", t) : t \in Tasks(cfg) } \cup { Nm("C", c) : c \in DOMAIN cfg.comps }
  \cup { Nm("M", j) : j \in 1..cfg.nTeam } \cup { Nm("P", j) : j \in DOMAIN cfg.wps }
  \cup (IF viewW THEN { Nm("W", w) : w \in DOMAIN cfg.workers } ELSE {})
  \cup (IF viewF THEN { Nm("F", f) : f \in DOMAIN cfg.facs } ELSE {})
GraphEdges(cfg, viewW, viewF) ==
  { <<Nm("T", d[1]), Nm("T", d[2])>> : d \in ToSet(cfg.deps) }
  \cup UNION { { <<Nm("C", c), Nm("C", ch)>> : ch \in ToSet(cfg.comps[c].children) } : c \in DOMAIN cfg.comps }
  \cup UNION { { <<Nm("C", c), Nm("T", t)>> : t \in TasksOf(cfg, c) } : c \in DOMAIN cfg.comps }
  \cup UNION { { <<Nm("M", j), Nm("T", t)>> : j \in ToSet(cfg.tasks[t].teams) } : t \in Tasks(cfg) }
  \cup UNION { { <<Nm("P", j), Nm("T", t)>> : j \in ToSet(cfg.tasks[t].wps) } : t \in Tasks(cfg) }
  \cup { <<Nm("M", 1), Nm("M", j)>> : j \in 2..cfg.nTeam }
  \cup { <<Nm("P", 1), Nm("P", j)>> : j \in 2..Len(cfg.wps) }
  \cup (IF viewW THEN { <<Nm("M", cfg.workers[w].team), Nm("W", w)>> : w \in DOMAIN cfg.workers } ELSE {})
  \cup (IF viewF THEN { <<Nm("P", cfg.facs[f].wp), Nm("F", f)>> : f \in DOMAIN cfg.facs } ELSE {})
\* obs = the recorded graph: sorted sequences of node names and of <<from, to>> pairs
GraphConforms(cfg, viewW, viewF, obs) ==
  /\ ToSet(obs.nodes) = GraphNodes(cfg, viewW, viewF)
  /\ Len(obs.nodes) = Cardinality(GraphNodes(cfg, viewW, viewF))
  /\ ToSet(obs.edges) = GraphEdges(cfg, viewW, viewF)
  /\ Len(obs.edges) = Cardinality(GraphEdges(cfg, viewW, viewF))
=============================================================================
