---------------------------- MODULE PdesyReport ----------------------------
(***************************************************************************)
(* Reporting functions of pDESy as functions of the logs (C19):            *)
(* get_time_list_for_gannt_chart (run-length encoding of a state log),     *)
(* create_data_for_gantt_plotly (chart rows), extract_*_list (state        *)
(* queries) and set_last_datetime.                                         *)
(*                                                                         *)
(* Lengths and margins are in units of 1/2 step (margins 0, 1/2, 1);       *)
(* dates are seconds relative to init_datetime.                            *)
(***************************************************************************)
EXTENDS PdesyApi

\* maximal runs of state s in log: <<start index (0-based), number of steps>>
RunStarts(log, s) == { i \in DOMAIN log : log[i] = s /\ (i = 1 \/ log[i - 1] # s) }
RunLen(log, s, i) == Max({ k \in 1..(Len(log) - i + 1) : \A j \in i..(i + k - 1): log[j] = s })
Runs(log, s) ==
  LET starts == SetToSortSeq(RunStarts(log, s), <)
  IN [n \in DOMAIN starts |-> <<starts[n] - 1, RunLen(log, s, starts[n])>>]
\* what the Gantt encoders return: (from, length) with length = steps - 1 + margin
Intervals(log, s, m2) ==
  LET r == Runs(log, s) IN [n \in DOMAIN r |-> <<r[n][1], 2 * (r[n][2] - 1) + m2>>]
\* chart rows: <<start seconds, finish seconds>> for unit length u (seconds per step)
Rows(log, s, m2, u) ==
  LET iv == Intervals(log, s, m2)
  IN [n \in DOMAIN iv |-> <<iv[n][1] * u, ((2 * iv[n][1] + iv[n][2]) * u) \div 2>>]
\* extract_*_list: indices of the objects whose log shows s at all the given times
Extract(logs, s, times) ==
  { i \in DOMAIN logs : \A t \in ToSet(times): t + 1 <= Len(logs[i]) /\ logs[i][t + 1] = s }
=============================================================================
