---------------------------- MODULE MC_Pdesy ----------------------------
(***************************************************************************)
(* Model-checking instance (L1): the step machine as a transition system   *)
(* over every model of a bounded family, with the property clauses of      *)
(* PdesyProps as invariants and action properties.                         *)
(*                                                                         *)
(* One behaviour = one run of simulate() on one cfg of the family; pc is   *)
(* the name of the phase event just passed (the same alphabet as the       *)
(* recorded traces), so a counterexample is directly a trace prefix that   *)
(* the harness can replay in the real code.                                *)
(***************************************************************************)
EXTENDS PdesyFamilies, TLC

CONSTANTS FAMILY, TIER

FamilySet == Family(FAMILY, TIER)

VARIABLES cfg, st, lg, pc, b, k
vars == <<cfg, st, lg, pc, b, k>>
opts == cfg.opts

Init ==
  /\ cfg \in FamilySet
  /\ st = InitF(cfg)
  /\ lg = EmptyLogs(cfg)
  /\ pc = "init"
  /\ b = InitF(cfg)
  /\ k = 0

Go(ph, s1) == pc' = ph /\ st' = s1 /\ UNCHANGED cfg
Prev == IF pc = "recorded" THEN TickF(opts, st) ELSE st

Next ==
  /\ ~st.crash
  /\ \/ pc \in {"init", "recorded"} /\ Go("finished", UpdateFinF(cfg, Prev)) /\ UNCHANGED <<lg, b, k>>
     \/ pc = "finished" /\ Go("unplaced", UnplaceF(cfg, st)) /\ UNCHANGED <<lg, b, k>>
     \/ pc = "unplaced" /\ Go("ready", UpdateReadyF(cfg, st)) /\ UNCHANGED <<lg, b, k>>
     \/ pc = "ready" /\ Go("updated", PertF(cfg, st)) /\ UNCHANGED <<lg, b, k>>
     \/ pc = "updated" /\ Returns(cfg, opts, st)
          /\ Go("returned", ReturnF(cfg, opts, st))
          /\ lg' = Header(lg, ReturnF(cfg, opts, st), opts) /\ UNCHANGED <<b, k>>
     \/ pc = "updated" /\ ~Returns(cfg, opts, st)
          /\ Go("presence", PresenceF(cfg, opts, st))
          /\ b' = PresenceF(cfg, opts, st) /\ k' = 0 /\ UNCHANGED lg
     \/ pc \in {"presence", "alloc_task"} /\ ~IsAbsenceStep(opts, st.time)
          /\ k < Len(AllocOrder(cfg, opts, b))
          /\ Go("alloc_task", AllocPrefix(cfg, opts, b, k + 1).st)
          /\ k' = k + 1 /\ UNCHANGED <<lg, b>>
     \/ pc \in {"presence", "alloc_task"}
          /\ (IsAbsenceStep(opts, st.time) \/ k = Len(AllocOrder(cfg, opts, b)))
          /\ Go("allocated", st) /\ UNCHANGED <<lg, b, k>>
     \/ pc = "allocated" /\ Go("started", StartPhaseF(cfg, opts, st)) /\ UNCHANGED <<lg, b, k>>
     \/ pc = "started" /\ Go("cost", st) /\ UNCHANGED <<lg, b, k>>
     \/ pc = "cost" /\ Go("performed", PerformF(cfg, opts, st)) /\ UNCHANGED <<lg, b, k>>
     \/ pc = "performed" /\ Go("recorded", RecordF(cfg, opts, st))
          /\ lg' = AppendLogs(cfg, opts, lg, st) /\ UNCHANGED <<b, k>>

Spec == Init /\ [][Next]_vars /\ WF_vars(Next)

AtEnd == pc = "returned"

\* ---- the step machine agrees with its own big-step composition (sanity of the spec)
BigStepAgrees ==
  /\ (pc = "updated" => TRUE)
  /\ (pc = "allocated" => st = AllocF(cfg, opts, b))
RunAgrees == AtEnd => [st |-> st, lg |-> lg] = SimulateF(cfg, opts)

\* ---- properties ---------------------------------------------------------------
Inv_C01 == AllTrue(C01_S(cfg, opts, pc, st)) /\ (AtEnd => AllTrue(C01_L(cfg, opts, lg)))
Act_C01 == AllTrue(C01_A(cfg, opts, pc', Prev, st', b'))
Inv_C02 == AllTrue(C02_S(cfg, opts, pc, st)) /\ (AtEnd => AllTrue(C02_L(cfg, opts, lg)))
Act_C02 == AllTrue(C02_A(cfg, opts, pc', Prev, st', b'))
Inv_C03 == AllTrue(C03_S(cfg, opts, pc, st)) /\ (AtEnd => AllTrue(C03_L(cfg, opts, lg)))
Act_C03 == AllTrue(C03_A(cfg, opts, pc', Prev, st', b'))
Act_C04 == AllTrue(C04_A(cfg, opts, pc', Prev, st', b'))
Inv_C04 == AtEnd => AllTrue(C04_L(cfg, opts, lg))
Inv_C05 == /\ AllTrue(C05_S(cfg, opts, pc, st))
           /\ ~st.crash
           /\ (AtEnd => AllTrue(C05_End(cfg, opts, st, "ok")))
Live_C05 == <>(pc = "returned")
Inv_C06 == AllTrue(C06_S(cfg, opts, pc, st))
Act_C06 == AllTrue(C06_A(cfg, opts, pc', Prev, st', b'))
Inv_C07 == AtEnd => AllTrue(C07_L(cfg, opts, lg))
Inv_C08 == AtEnd => AllTrue(C08_L(cfg, opts, lg))
Inv_C10 == AllTrue(C10_S(cfg, opts, pc, st)) /\ (AtEnd => AllTrue(C10_L(cfg, opts, lg)))
Act_C10 == AllTrue(C10_A(cfg, opts, pc', Prev, st', b'))
Inv_C12 == AllTrue(C12_S(cfg, opts, pc, st))
Inv_C13 == AllTrue(C13_S(cfg, opts, pc, st)) /\ ~st.crash /\ (AtEnd => AllTrue(C13_L(cfg, opts, lg)))
Act_C13 == AllTrue(C13_A(cfg, opts, pc', Prev, st', b'))
Inv_C14 == AllTrue(C14_S(cfg, opts, pc, st)) /\ (AtEnd => AllTrue(C14_L(cfg, opts, lg)))
Act_C14 == AllTrue(C14_A(cfg, opts, pc', Prev, st', b'))

Prop_C01 == [][Act_C01]_vars
Prop_C02 == [][Act_C02]_vars
Prop_C03 == [][Act_C03]_vars
Prop_C04 == [][Act_C04]_vars
Prop_C06 == [][Act_C06]_vars
Prop_C10 == [][Act_C10]_vars
Prop_C13 == [][Act_C13]_vars
Act_C11 == AllTrue(C11_A(cfg, opts, pc', Prev, st', b'))
Prop_C11 == [][Act_C11]_vars
Prop_C14 == [][Act_C14]_vars

\* ---- C09: independence of the visiting order of the internal task sets ---------
\* every phase that iterates a set gives the same result for every rank permutation
Reranked(r) == [cfg EXCEPT !.tasks = [t \in DOMAIN cfg.tasks |-> [cfg.tasks[t] EXCEPT !.rank = r[t] - 1]]]
\* PERT values are not part of the logs/times/costs/status the property speaks of; for mixed
\* dependency kinds ties in the forward pass make eft (hence cpl, lst, lft) depend on the order.
NoPert(s) == [s EXCEPT !.est = <<>>, !.eft = <<>>, !.lst = <<>>, !.lft = <<>>, !.cpl = 0]
Inv_C09 ==
  \A r \in Perms(Len(cfg.tasks)):
     LET c2 == Reranked(r)
     IN /\ (pc \in {"init", "recorded"} => UpdateF(c2, Prev) = UpdateF(cfg, Prev))
        /\ (pc = "allocated" => StartPhaseF(c2, opts, st) = StartPhaseF(cfg, opts, st))
        \* the whole run: same logs, time, costs, status for every visiting order
        /\ (pc = "returned" => SimulateF(c2, opts).lg = lg)

\* ---- C10: deleting the absence steps gives the absence-free run ---------------------------
C10_Scope ==
  /\ \A w \in Workers(cfg): cfg.workers[w].abs = <<>>
  /\ \A f \in Facs(cfg): cfg.facs[f].abs = <<>>
  /\ \A t \in Tasks(cfg): ~(cfg.tasks[t].auto /\ cfg.tasks[t].comp # 0)
  /\ (opts.autoAbs => \A t \in Tasks(cfg): ~cfg.tasks[t].auto)
Inv_C10H ==
  pc = "returned" /\ C10_Scope /\ st.status = "SUCCESS" =>
     LET free == SimulateF(cfg, [opts EXCEPT !.absL = <<>>])
         cut  == RemoveAbsenceF(lg)
     IN free.st.status = "SUCCESS" =>
          [cut EXCEPT !.mode = "x", !.status = "x"] = [free.lg EXCEPT !.mode = "x", !.status = "x"]

\* ---- C18: editing absence steps on the specification's own results -------------------------
EditLists == {<<0>>, <<1>>, <<0, 1>>, <<1, 3>>, <<2, 40>>, <<3, 2, 1>>}
Inv_C18 ==
  AtEnd =>
    \A L \in EditLists:
       LET ins == InsertAbsenceF(cfg, lg, L)
           cut == RemoveAbsenceF(ins)
       IN /\ AllTrue(C08_L(cfg, opts, ins)) /\ AllTrue(C08_L(cfg, opts, cut))
          /\ \A s \in ToSet(L): ~Mem(lg.absL, s) /\ s < ins.time => C18_NoWorkRow(cfg, ins, s)
          /\ (lg.absL = <<>> => cut = lg)

\* ---- C17: the backward run of the specification (on BackwardCfg) respects FS links in forward time
Inv_C17 ==
  pc = "init" =>
    \A due \in BOOLEAN:
       LET bw == SimulateF(BackwardCfg(cfg, due), opts)
           n == Len(cfg.tasks)
           fwd == ReverseLogsF(bw.lg)
       IN bw.st.status = "SUCCESS" =>
            C17_FsOrder(cfg, [fwd EXCEPT !.ts = [t \in 1..n |-> fwd.ts[t]]])

\* ---- C15: re-entering the loop at the same time changes nothing --------------------------
\* (resume repeats the update phase on the state the paused run left behind)
Inv_C15 == pc = "updated" => UpdateF(cfg, st) = st
=============================================================================
