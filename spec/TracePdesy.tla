---------------------------- MODULE TracePdesy ----------------------------
(***************************************************************************)
(* Trace specification: validates batches of executions recorded from the  *)
(* real pDESy code (harness/drive.py) against the step machine and         *)
(* evaluates the property clauses of PdesyProps on them.                   *)
(*                                                                         *)
(* A batch has a set of property ids to judge and a sequence of cases; a   *)
(* case has a cfg and a sequence of runs (API operations); a simulate run  *)
(* has the events of the phase hook, each with the complete projected      *)
(* state.  Because nothing is left to infer, the behaviour of this         *)
(* specification is one chain of states per case (position 0 = operation   *)
(* level, position i = i-th event) and validation is linear.  The verdict  *)
(* is total: every clause is wrapped in Check, which prints a FAIL line    *)
(* and lets TLC go on, so one deviation does not hide the rest of the      *)
(* trace.  Acceptance (every position visited) is checked by the harness   *)
(* from TLC's distinct-state count.                                        *)
(***************************************************************************)
EXTENDS PdesyProps, Json, IOUtils, TLC, TLCExt

Input == JsonDeserialize(IOEnv.TRACE_FILE)
Batch == Input.cases
Props == ToSet(Input.props)

VARIABLES tid, rid, l
vars == <<tid, rid, l>>

Case == Batch[tid]
Run  == Case.runs[rid]
\* the model of this run: the case's cfg unless the history changed the model before the run
Cfg  == IF "cfg" \in DOMAIN Run THEN Run.cfg ELSE Case.cfg
Opts == Run.opts
Ev(i) == Run.ev[i]

\* the model the events of this run were produced on
RunCfg == IF Run.op = "backward" THEN BackwardCfg(Cfg, Run.args.due) ELSE Cfg
Pre == IF rid > 1 THEN Case.runs[rid - 1].final ELSE Run.final
IsSim == Run.op = "simulate"

Check(name, cond) == cond \/ PrintT(<<"FAIL", name, Case.cfg.id, rid, l>>)
CheckAll(cl) == \A i \in DOMAIN cl: Check(cl[i][1], cl[i][2])
On(p, cl) == IF p \in Props THEN cl ELSE <<>>

TraceInit == tid \in 1..Len(Batch) /\ rid = 1 /\ l = 0
TraceNext ==
  \/ /\ l < Len(Run.ev)
     /\ l' = l + 1 /\ UNCHANGED <<tid, rid>>
  \/ /\ l = Len(Run.ev) /\ rid < Len(Case.runs)
     /\ rid' = rid + 1 /\ l' = 0 /\ UNCHANGED tid
TraceSpec == TraceInit /\ [][TraceNext]_vars

\* ---- L2: conformance of one recorded event with the step machine ----------
PrevSt == IF Ev(l - 1).ph = "recorded" THEN TickF(Opts, Ev(l - 1).st) ELSE Ev(l - 1).st
AfterUpdate == l > 1 /\ Ev(l - 1).ph = "updated"
Base == IF l > 0 /\ Ev(l).base > 0 THEN Ev(Ev(l).base).st ELSE Ev(l).st

Conforms ==
  LET e == Ev(l)  ph == e.ph  s == e.st
  IN CASE ph = "init" ->
            /\ (l = 1 \/ (l = 2 /\ Ev(1).ph = "bw_enter"))
            /\ (Opts.initState /\ Opts.initLog => s = InitF(RunCfg))
            /\ (~(Opts.initState /\ Opts.initLog) /\ rid > 1 /\ IsSim =>
                  s = [InitializeFlagsF(Cfg, [st |-> Pre.st, lg |-> Pre.lg], Opts.initState, Opts.initLog).st
                         EXCEPT !.mode = "FORWARD"])
       [] ph = "bw_enter" -> l = 1 /\ Run.op = "backward"
       [] ph = "bw_exit" -> l = Len(Run.ev) /\ Run.op = "backward"
       [] ph = "finished" ->
            /\ l > 1 /\ Ev(l - 1).ph \in {"init", "recorded"}
            /\ s = UpdateFinF(RunCfg, PrevSt)
       [] ph = "unplaced" -> l > 1 /\ Ev(l - 1).ph = "finished" /\ s = UnplaceF(RunCfg, Ev(l - 1).st)
       [] ph = "ready"    -> l > 1 /\ Ev(l - 1).ph = "unplaced" /\ s = UpdateReadyF(RunCfg, Ev(l - 1).st)
       [] ph = "updated"  -> l > 1 /\ Ev(l - 1).ph = "ready" /\ s = PertF(RunCfg, Ev(l - 1).st)
       [] ph = "returned" ->
            /\ AfterUpdate /\ Returns(RunCfg, Opts, Ev(l - 1).st)
            /\ s = ReturnF(RunCfg, Opts, Ev(l - 1).st)
            /\ (l = Len(Run.ev) \/ (l = Len(Run.ev) - 1 /\ Ev(Len(Run.ev)).ph = "bw_exit"))
       [] ph = "presence" ->
            /\ AfterUpdate /\ ~Returns(RunCfg, Opts, Ev(l - 1).st)
            /\ s = PresenceF(RunCfg, Opts, Ev(l - 1).st)
       [] ph = "alloc_task" ->
            /\ e.base > 0 /\ ~IsAbsenceStep(Opts, s.time)
            /\ LET b == Ev(e.base).st
                   ord == AllocOrder(RunCfg, Opts, b)
               IN /\ e.k <= Len(ord)
                  /\ e.task = ord[e.k]
                  /\ s = AllocPrefix(RunCfg, Opts, b, e.k).st
       [] ph = "allocated" ->
            /\ e.base > 0
            /\ s = AllocF(RunCfg, Opts, Ev(e.base).st)
            /\ e.k = (IF IsAbsenceStep(Opts, s.time) THEN 0
                      ELSE Len(AllocOrder(RunCfg, Opts, Ev(e.base).st)))
       [] ph = "started"   -> l > 1 /\ Ev(l - 1).ph = "allocated" /\ s = StartPhaseF(RunCfg, Opts, Ev(l - 1).st)
       [] ph = "cost"      -> l > 1 /\ Ev(l - 1).ph = "started" /\ s = Ev(l - 1).st
       [] ph = "performed" -> l > 1 /\ Ev(l - 1).ph = "cost" /\ s = PerformF(RunCfg, Opts, Ev(l - 1).st)
       [] ph = "recorded"  -> l > 1 /\ Ev(l - 1).ph = "performed" /\ s = RecordF(RunCfg, Opts, Ev(l - 1).st)
       [] OTHER -> FALSE

\* ---- L3: property clauses on the recorded event ------------------------------
StateClauses(ph, s) ==
     On("C01", C01_S(Cfg, Opts, ph, s)) \o On("C02", C02_S(Cfg, Opts, ph, s))
  \o On("C03", C03_S(Cfg, Opts, ph, s)) \o On("C05", C05_S(Cfg, Opts, ph, s))
  \o On("C06", C06_S(Cfg, Opts, ph, s)) \o On("C10", C10_S(Cfg, Opts, ph, s))
  \o On("C12", C12_S(Cfg, Opts, ph, s)) \o On("C13", C13_S(Cfg, Opts, ph, s))
  \o On("C14", C14_S(Cfg, Opts, ph, s))
StepClauses(ph, s0, s1, b) ==
     On("C01", C01_A(Cfg, Opts, ph, s0, s1, b)) \o On("C02", C02_A(Cfg, Opts, ph, s0, s1, b))
  \o On("C03", C03_A(Cfg, Opts, ph, s0, s1, b)) \o On("C04", C04_A(Cfg, Opts, ph, s0, s1, b))
  \o On("C06", C06_A(Cfg, Opts, ph, s0, s1, b)) \o On("C10", C10_A(Cfg, Opts, ph, s0, s1, b))
  \o On("C13", C13_A(Cfg, Opts, ph, s0, s1, b)) \o On("C14", C14_A(Cfg, Opts, ph, s0, s1, b))
  \o On("C11", C11_A(Cfg, Opts, ph, s0, s1, b))

\* each component changes place at most once within the allocation phase of a step
MovesOnce ==
  LET e == Ev(l)
  IN e.ph = "allocated" /\ e.base > 0 =>
       \A c \in Comps(Cfg):
          Cardinality({ i \in e.base..(l - 1) : Ev(i).st.cp[c] # Ev(i + 1).st.cp[c] }) <= 1

\* ---- operation level (position 0): the run as a whole ---------------------------
\* logs in forward time as this run produced them
PerformedStates == SelectSeq([i \in 1..Len(Run.ev) |-> Ev(i)], LAMBDA e: e.ph = "performed")
FoldedLogs(lg0) ==
  FoldLeft(LAMBDA lg, e: AppendLogs(Cfg, Opts, lg, e.st), lg0, PerformedStates)
IsFreshSimulate == Run.op = "simulate" /\ Opts.initState /\ Opts.initLog
LogFieldsToCompare ==
  <<"pcost", "ocost", "mcost", "pwcost", "ts", "rem", "aw", "af", "ws", "wcost", "wt",
    "fs", "fcost", "ft", "cs", "cp", "pc">>
\* the log clauses of the other properties index all logs by step; when the logs are not aligned
\* they cannot be evaluated - that is C08's finding, everybody else reports X.logs-aligned (drift)
LogsAligned(lg) == Cardinality(C08_AllLens(Cfg, lg)) = 1
SimRunClauses ==
  LET fin == Run.final
  IN IF ~LogsAligned(fin.lg)
     THEN On("C05", C05_End(Cfg, Opts, fin.st, Run.ret)) \o On("C08", C08_L(Cfg, Opts, fin.lg))
          \o << <<"X.logs-aligned", FALSE>> >>
     ELSE
       On("C05", C05_End(Cfg, Opts, fin.st, Run.ret))
     \o On("C13", << <<"C13.R.no-crash", Run.ret # "exc:ValueError">> >>)
     \o On("C11", << <<"C11.R.rule-accepted", Run.ret \notin {"exc:KeyError", "exc:TypeError"}>> >>)
     \o On("C01", C01_L(Cfg, Opts, fin.lg)) \o On("C02", C02_L(Cfg, Opts, fin.lg))
     \o On("C03", C03_L(Cfg, Opts, fin.lg)) \o On("C04", C04_L(Cfg, Opts, fin.lg))
     \o On("C07", C07_L(Cfg, Opts, fin.lg)) \o On("C08", C08_L(Cfg, Opts, fin.lg))
     \o On("C10", C10_L(Cfg, Opts, fin.lg)) \o On("C14", C14_L(Cfg, Opts, fin.lg))
     \o On("C13", C13_L(Cfg, Opts, fin.lg))
     \o (IF "sub" \in DOMAIN Run.args
         THEN On("C20", C20_Parent(Cfg, Opts, fin.lg, Run.args.sub, Run.args.expectSteps)
                        \o << <<"C20.L.exact-rate", Run.obs.exactRate>> >>)
         ELSE <<>>)
     \* runs recorded without events: the whole run must be the specification's run
     \o (IF Len(Run.ev) = 0 /\ ~Run.args.plainTasks
         THEN << <<"L2.run", IF Run.ret = "ok" THEN [st |-> fin.st, lg |-> fin.lg] = SimulateF(Cfg, Opts)
                             \* a run that died in list.remove(): the specification predicts the crash
                             ELSE Run.ret = "exc:ValueError" /\ SimulateF(Cfg, Opts).st.crash>> >> ELSE <<>>)
     \o (IF Len(Run.ev) = 0 THEN <<>> ELSE
         On("C08", LET spec == FoldedLogs(EmptyLogs(Cfg))
                  IN << <<"C08.L.live-time", fin.lg.time = Len(PerformedStates) * Unit(Opts)>>,
                        <<"C08.L.live-header", fin.lg.status = fin.st.status /\ fin.lg.mode = fin.st.mode
                                               /\ fin.lg.time = fin.st.time>> >>
                     \o [i \in DOMAIN LogFieldsToCompare |->
                           LET f == LogFieldsToCompare[i]
                           IN <<"C08.L.live-" \o f, fin.lg[f] = spec[f]>>])
         \o On("C07", LET spec == FoldedLogs(EmptyLogs(Cfg))
                  IN << <<"C07.L.live", \A f \in {"pcost", "ocost", "mcost", "pwcost", "wcost", "fcost"}:
                                           fin.lg[f] = spec[f]>> >>))

\* comparison with a reference run of the same case (args.cmp = its index, args.cmpProp = owner)
CmpClauses ==
  \* (nothing to compare with when the reference run itself died - e.g. the known crash on nested
  \* products, which C05 / C13 judge)
  IF Run.args.cmp = 0 \/ Case.runs[Run.args.cmp].ret # "ok" THEN <<>>
  ELSE LET ref == Case.runs[Run.args.cmp].final
       IN On(Run.args.cmpProp,
             << <<Run.args.cmpProp \o ".H.same-result-" \o Run.args.cmpWhat,
                  CASE Run.args.cmpWhat = "lg" -> SameLogs(Run.final, ref)
                    \* runs cut off by max_time are not comparable
                    [] Run.args.cmpWhat = "lg-success" ->
                         (ref.lg.status = "SUCCESS" /\ Run.final.lg.status = "SUCCESS" => SameLogs(Run.final, ref))
                    [] Run.args.cmpWhat = "graph" ->
                         Run.ret = "ok" /\ Run.obs = Case.runs[Run.args.cmp].obs
                    [] OTHER -> SameResult(Run.final, ref)>> >>)

RunClauses ==
  CmpClauses
  \o (IF Run.op \in {"sort", "report"} THEN <<>> ELSE << <<"X.exact", Run.final.inexact = <<>> >> >>)
  \o (IF Run.op \in {"sort", "report", "rebuild", "snapshot", "subconfig", "add_dep", "graph", "add_worker_task", "add_team_target", "edit_abs"} THEN <<>> ELSE On("C08", C08_H(Cfg, Run)))
  \o (CASE Run.op = "sort" -> On("C11", C11_F(Cfg, Run)) \o << <<"L2.sort", C11_FConforms(Cfg, Run)>> >>
        [] Run.op = "report" -> On("C19", C19_F(Run))
        [] Run.op = "subconfig" -> On("C20", C20_Config(Run))
        [] Run.op = "simulate" /\ IsFreshSimulate -> SimRunClauses
        [] Run.op = "simulate" /\ ~IsFreshSimulate ->
             On("C05", C05_End(Cfg, Opts, Run.final.st, Run.ret))
             \* (with plain BaseTask objects the visiting order of sets is not the rank order)
             \o (IF rid > 1 /\ ~Opts.initState /\ ~Opts.initLog /\ ~Run.args.plainTasks
                 THEN << <<"L2.resume", [st |-> Run.final.st, lg |-> Run.final.lg] = ResumeF(Cfg, Opts, [st |-> Pre.st, lg |-> Pre.lg])>> >>
                 ELSE <<>>)
        [] Run.op = "backward" ->
             On("C17", C17_H(Cfg, Run))
             \* a backward run on a freshly built project is the specification's backward run
             \o (IF (rid = 1 \/ Case.runs[rid - 1].op = "rebuild") /\ Run.ret = "ok" /\ ~Run.args.plainTasks
                    /\ LogsAligned(Run.final.lg)
                 THEN << <<"L2.backward", Run.final.lg = BackwardF(Cfg, Opts, Run.args.due, Run.args.reverse)>> >>
                 ELSE <<>>)
        [] Run.op = "initialize" /\ rid > 1 ->
             << <<"L2.initialize", Run.ret = "ok" /\
                   LET x == InitializeFlagsF(Cfg, [st |-> Pre.st, lg |-> Pre.lg], Run.args.state, Run.args.log)
                   IN Run.final.st = x.st /\ [Run.final.lg EXCEPT !.absL = <<>>] = [x.lg EXCEPT !.absL = <<>>]>> >>
        [] Run.op = "reverse" ->
             << <<"L2.reverse", Run.final.lg = ReverseLogsF(Pre.lg) /\ Run.final.st = Pre.st>> >>
             \* the display rule survives the reversal: row k is an absence row afterwards iff its
             \* mirror image was one before (entries outside the logs do not matter)
             \o On("C08", LET n == Len(Pre.lg.pcost)
                              inside(L) == { a \in ToSet(L) : a >= 0 /\ a < n }
                              blank(lg) == [lg EXCEPT !.absL = <<>>, !.status = "x", !.mode = "x"]
                          IN << <<"C08.H.absence-mirrored", Run.ret = "ok" =>
                                   inside(Run.final.lg.absL) = { n - 1 - a : a \in inside(Pre.lg.absL) }>>,
                                \* every per-step log of every object is turned round (one that is
                                \* not would no longer line up with the others), time is unchanged
                                <<"C08.H.reversed", Run.ret = "ok" /\ LogsAligned(Pre.lg) =>
                                   blank(Run.final.lg) = blank(MapLogs(Pre.lg, Rev))>> >>)
        [] Run.op = "remove_absence" ->
             On("C18", C18_H(Cfg, Run, Pre))
             \o (IF Run.ret = "ok" THEN On("C07", C07_AfterEdit(Cfg, Opts, Run.final.lg)) ELSE <<>>)   \* (these clauses guard their own indexing)
             \o (IF LogsAligned(Pre.lg)
                 THEN << <<"L2.remove_absence", Run.ret = "ok" /\ Run.final.lg = RemoveAbsenceF(Pre.lg)>> >>
                 ELSE << <<"X.logs-aligned", FALSE>> >>)
        [] Run.op = "insert_absence" ->
             On("C18", C18_H(Cfg, Run, Pre))
             \o (IF Run.ret = "ok" THEN On("C07", C07_AfterEdit(Cfg, Opts, Run.final.lg)) ELSE <<>>)   \* (these clauses guard their own indexing)
             \o (IF LogsAligned(Pre.lg)
                 THEN << <<"L2.insert_absence", Run.ret = "ok" /\ Run.final.lg = InsertAbsenceF(Cfg, Pre.lg, Run.args.L)>> >>
                 ELSE << <<"X.logs-aligned", FALSE>> >>)
        [] Run.op = "saveload" -> On("C16", C16_H(Cfg, Run, Pre))
        [] Run.op = "graph" ->
             << <<"L2.graph", Run.ret = "ok" /\ GraphConforms(Cfg, Run.args.workers, Run.args.facilities, Run.obs)>> >>
        [] OTHER -> <<>>)

\* the recorded state has the shape (numbers of tasks, resources, components) of the model the
\* specification expects for this run; otherwise nothing else can be evaluated on it
ShapeOK(s) ==
  /\ Len(s.ts) = Len(RunCfg.tasks) /\ Len(s.ws) = Len(RunCfg.workers) /\ Len(s.fs) = Len(RunCfg.facs)
  /\ Len(s.cs) = Len(RunCfg.comps) /\ Len(s.pc) = Len(RunCfg.wps)
Judge ==
  IF l = 0 THEN CheckAll(RunClauses)
  ELSE IF Ev(l).ph \in {"bw_enter", "bw_exit"} THEN Check("L2." \o Ev(l).ph, Conforms)
  ELSE IF ~ShapeOK(Ev(l).st) \/ (l > 1 /\ Ev(l - 1).ph # "bw_enter" /\ ~ShapeOK(Ev(l - 1).st))
  THEN Check("L2.shape", FALSE)
  ELSE /\ Check("L2." \o Ev(l).ph, Conforms)
       /\ Check("X.exact", Ev(l).inexact = <<>>)
       /\ (IsSim => CheckAll(StateClauses(Ev(l).ph, Ev(l).st)))
       /\ (IsSim /\ l > 1 => CheckAll(StepClauses(Ev(l).ph, PrevSt, Ev(l).st, Base)))
       /\ (IsSim /\ "C13" \in Props => Check("C13.A.once", MovesOnce))
=============================================================================
