---------------------------- MODULE PdesySort ----------------------------
(***************************************************************************)
(* The priority rules of pDESy/model/base_priority_rule.py.                *)
(*                                                                         *)
(* Python's sorted() is stable, also with reverse=True, so every rule is   *)
(* "stable sort by an integer key" (reverse = negated key).  Keys are      *)
(* passed as functions because RECURSIVE/higher-order operators cannot     *)
(* take operator arguments in TLC.                                         *)
(***************************************************************************)
EXTENDS PdesyCfg

BIG == 1000000   \* stands for float("inf") in HSV keys

\* insert x behind every element whose key is <= key[x]  (acc is sorted)
InsertStable(acc, x, key) ==
  LET n == Cardinality({ i \in DOMAIN acc : key[acc[i]] <= key[x] })
  IN SubSeq(acc, 1, n) \o <<x>> \o SubSeq(acc, n + 1, Len(acc))

StableSortBy(s, key) == FoldLeft(LAMBDA acc, x: InsertStable(acc, x, key), <<>>, s)

IsPermutationOf(s, r) ==
  /\ Len(s) = Len(r)
  /\ \A x \in ToSet(s) \cup ToSet(r):
        Cardinality({ i \in DOMAIN s : s[i] = x }) = Cardinality({ i \in DOMAIN r : r[i] = x })
IsOrderedBy(s, key) == \A i \in 1..(Len(s) - 1): key[s[i]] <= key[s[i + 1]]

\* ---- task rules (sort_task_list) ----------------------------------------
\* st supplies est/lst/rem/cpl and rc (number of READY entries in the state log)
TaskKey(cfg, st, rule) ==
  [t \in Tasks(cfg) |->
     CASE rule = "TSLACK" -> st.lst[t] - st.est[t]
       [] rule = "EST"    -> st.est[t]
       [] rule = "SPT"    -> cfg.tasks[t].work
       [] rule = "LPT"    -> 0 - cfg.tasks[t].work
       [] rule = "FIFO"   -> 0 - st.rc[t]
       [] rule = "LRPT"   -> 0 - st.rem[t]
       [] rule = "SRPT"   -> st.rem[t]
       [] rule = "LWRPT"  -> 0 - st.cpl
       [] rule = "SWRPT"  -> st.cpl]

\* ---- worker rules (sort_worker_list) -------------------------------------
\* p = target workplace (0 = no workplace_id given), t = task whose name is passed.
\* MW1: main workplace differs from the target;  MW2: has a main workplace.
MW1(cfg, w, p) == IF cfg.workers[w].mainwp # p THEN 1 ELSE 0
MW2(cfg, w)    == IF cfg.workers[w].mainwp # 0 THEN 1 ELSE 0
WSum(cfg, w)   == PosSum(cfg.workers[w].skill)
WorkerKey(cfg, rule, t, p) ==
  [w \in Workers(cfg) |->
     CASE rule = "MW"  -> MW1(cfg, w, p) * 2 * BIG + MW2(cfg, w) * BIG + WSum(cfg, w)
       [] rule = "SSP" -> WSum(cfg, w) * 4 + MW1(cfg, w, p) * 2 + MW2(cfg, w)
       [] rule = "VC"  -> cfg.workers[w].cost * 4 + MW1(cfg, w, p) * 2 + MW2(cfg, w)
       [] rule = "HSV" -> (IF Skill(cfg, w, t) < 0 THEN BIG ELSE 0 - Skill(cfg, w, t)) * 4
                          + MW1(cfg, w, p) * 2 + MW2(cfg, w)]

\* ---- facility rules (sort_facility_list) ----------------------------------
FacilityKey(cfg, rule, t) ==
  [f \in Facs(cfg) |->
     CASE rule = "SSP" -> PosSum(cfg.facs[f].skill)
       [] rule = "VC"  -> cfg.facs[f].cost
       [] rule = "HSV" -> IF FSkill(cfg, f, t) < 0 THEN BIG ELSE 0 - FSkill(cfg, f, t)
       [] rule = "MW"  -> 0]     \* no MW branch for facilities: list unchanged

\* ---- workplace rules (sort_workplace_list) ---------------------------------
\* avail[p] = free space of workplace p (state dependent, supplied by the caller)
WorkplaceKey(cfg, rule, t, avail) ==
  [p \in Wps(cfg) |->
     CASE rule = "FSS" -> 0 - avail[p]
       [] rule = "SSP" -> 0 - FoldLeft(LAMBDA a, f: a + Max2(FSkill(cfg, f, t), 0), 0, FacsOf(cfg, p))]
=============================================================================
