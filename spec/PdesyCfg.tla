---------------------------- MODULE PdesyCfg ----------------------------
(***************************************************************************)
(* The static model of a pDESy project as one record `cfg`.                *)
(*                                                                         *)
(* Every operator takes cfg explicitly so that the same definitions serve  *)
(* the model-checking instances (cfg chosen in Init from a family) and the *)
(* trace specifications (cfg deserialised from the recorded case).  Only   *)
(* records, sequences, integers, strings and booleans occur in cfg, so a   *)
(* JSON round trip is the identity.                                        *)
(*                                                                         *)
(* Units: work amounts, worker skills, auto-task rates and PERT values are *)
(* integers in units of 1/Q; facility skills are plain integers; space     *)
(* sizes / capacities are in units of 1/2; default progress is prog/4.     *)
(* A skill of -1 stands for "no entry in the skill map".                   *)
(*                                                                         *)
(* cfg.tasks[t]  : work, prog, auto, rate, needF, comp (0 = none), teams,  *)
(*                 wps (ordered = allocated_workplace_list), fixWon, fixW, *)
(*                 fixFon, fixF, wrule, frule, prule, due, rank, sub       *)
(* cfg.deps      : sequence of <<pred, succ, kind>> in creation order      *)
(* cfg.workers[w]: team, skill[t], fskill[f], cost, solo, abs, mainwp      *)
(*                 (numbered team by team = order of the free-worker list) *)
(* cfg.facs[f]   : wp, skill[t], cost, solo, abs (numbered wp by wp)       *)
(* cfg.wps[p]    : cap, inputs                                             *)
(* cfg.comps[c]  : space, children                                         *)
(* cfg.opts      : absL, autoAbs, rule, maxTime                            *)
(***************************************************************************)
EXTENDS Integers, Sequences, FiniteSets, SequencesExt, FiniteSetsExt

Tasks(cfg)   == 1..Len(cfg.tasks)
Workers(cfg) == 1..Len(cfg.workers)
Facs(cfg)    == 1..Len(cfg.facs)
Wps(cfg)     == 1..Len(cfg.wps)
Comps(cfg)   == 1..Len(cfg.comps)

Max2(a, b) == IF a >= b THEN a ELSE b
Min2(a, b) == IF a <= b THEN a ELSE b

SeqSum(s) == FoldLeft(LAMBDA a, x: a + x, 0, s)
SumOver(S, f(_)) == FoldSet(LAMBDA x, a: a + f(x), 0, S)

RemoveElem(s, x) == SelectSeq(s, LAMBDA y: y # x)
\* list.remove(x) = SequencesExt!RemoveFirst (drops the first occurrence only)
Mem(s, x) == \E i \in DOMAIN s: s[i] = x

\* ---- dependencies ------------------------------------------------------
\* input_task_list of t, in list order: <<pred, kind>>
InEdges(cfg, t)  == SelectSeq(cfg.deps, LAMBDA e: e[2] = t)
\* output_task_list of t, in list order
OutEdges(cfg, t) == SelectSeq(cfg.deps, LAMBDA e: e[1] = t)
Preds(cfg, t, k) == { e[1] : e \in { d \in ToSet(cfg.deps) : d[2] = t /\ d[3] = k } }
Succs(cfg, t, k) == { e[2] : e \in { d \in ToSet(cfg.deps) : d[1] = t /\ d[3] = k } }
AllPreds(cfg, t) == { e[1] : e \in { d \in ToSet(cfg.deps) : d[2] = t } }
AllSuccs(cfg, t) == { e[2] : e \in { d \in ToSet(cfg.deps) : d[1] = t } }
FSOnly(cfg) == \A d \in ToSet(cfg.deps): d[3] = "FS"

\* ---- tasks -------------------------------------------------------------
InitRem(cfg, t) == (cfg.tasks[t].work * (4 - cfg.tasks[t].prog)) \div 4
DoneByDefault(cfg, t) == cfg.tasks[t].prog >= 4
TaskRank(cfg) == [t \in Tasks(cfg) |-> cfg.tasks[t].rank]
\* the tasks a component follows: those bound to it, plus tasks handed to its constructor
\* ("watch": no back-reference, so they never trigger its placement)
TasksOf(cfg, c) ==
  { t \in Tasks(cfg) : cfg.tasks[t].comp = c }
  \cup (IF "watch" \in DOMAIN cfg.comps[c] THEN ToSet(cfg.comps[c].watch) ELSE {})

\* ---- organization ------------------------------------------------------
\* skill maps are keyed by task *name* (facility operating licences by facility name); several
\* tasks (facilities) may share a name: alias = the index whose name this one carries
TaskName(cfg, t) == IF "alias" \in DOMAIN cfg.tasks[t] THEN cfg.tasks[t].alias ELSE t
FacName(cfg, f) == IF "alias" \in DOMAIN cfg.facs[f] THEN cfg.facs[f].alias ELSE f
Skill(cfg, w, t) == cfg.workers[w].skill[TaskName(cfg, t)]
HasSkill(cfg, w, t) == Skill(cfg, w, t) > 0
FSkill(cfg, f, t) == cfg.facs[f].skill[TaskName(cfg, t)]
FHasSkill(cfg, f, t) == FSkill(cfg, f, t) > 0
CanOperate(cfg, w, f) == cfg.workers[w].fskill[FacName(cfg, f)] > 0
TeamTargets(cfg, w, t) == Mem(cfg.tasks[t].teams, cfg.workers[w].team)
WpTargets(cfg, p, t) == Mem(cfg.tasks[t].wps, p)
FacsOf(cfg, p) == SelectSeq([i \in Facs(cfg) |-> i], LAMBDA f: cfg.facs[f].wp = p)
PosSum(s) == FoldLeft(LAMBDA a, x: a + Max2(x, 0), 0, s)
\* static eligibility of a worker for a task (skill, team targeting, fixed list)
EligibleW(cfg, w, t) ==
  /\ HasSkill(cfg, w, t)
  /\ TeamTargets(cfg, w, t)
  /\ (cfg.tasks[t].fixWon => Mem(cfg.tasks[t].fixW, w))
EligibleF(cfg, f, t) ==
  /\ FHasSkill(cfg, f, t)
  /\ WpTargets(cfg, cfg.facs[f].wp, t)
  /\ (cfg.tasks[t].fixFon => Mem(cfg.tasks[t].fixF, f))

\* ---- product -----------------------------------------------------------
Children(cfg, c) == cfg.comps[c].children
ParentsOf(cfg, c) == { p \in Comps(cfg) : Mem(cfg.comps[p].children, c) }
IsTop(cfg, c) == ParentsOf(cfg, c) = {}
RECURSIVE Descendants(_, _)
Descendants(cfg, c) ==
  ToSet(Children(cfg, c)) \cup UNION { Descendants(cfg, d) : d \in ToSet(Children(cfg, c)) }
\* c and its descendants in the pre-order the recursive setters visit them
RECURSIVE PreOrder(_, _)
PreOrder(cfg, c) ==
  <<c>> \o FoldLeft(LAMBDA a, d: a \o PreOrder(cfg, d), <<>>, Children(cfg, c))

\* ---- options -----------------------------------------------------------
IsAbsenceStep(opts, time) == Mem(opts.absL, time)
\* simulate(unit_time=...): the amount `time` advances per step (1 unless the case says otherwise)
Unit(opts) == IF "unit" \in DOMAIN opts THEN opts.unit ELSE 1

\* ---- well-formedness of generated configurations -----------------------
CfgOK(cfg) ==
  /\ cfg.Q \in 1..60
  /\ \A t \in Tasks(cfg):
        /\ (cfg.tasks[t].work * (4 - cfg.tasks[t].prog)) % 4 = 0
        /\ cfg.tasks[t].comp \in 0..Len(cfg.comps)
        /\ (cfg.tasks[t].needF => cfg.tasks[t].comp # 0)
  /\ \A d \in ToSet(cfg.deps): d[1] \in Tasks(cfg) /\ d[2] \in Tasks(cfg) /\ d[1] # d[2]
  /\ \A w \in Workers(cfg): Len(cfg.workers[w].skill) = Len(cfg.tasks)
=============================================================================
