---------------------------- MODULE PdesyApi ----------------------------
(***************************************************************************)
(* The API level of BaseProject: the per-step logs (history variables that *)
(* the record phase appends to), whole runs of simulate() as a function,   *)
(* and the operations on finished results: reverse_log_information,        *)
(* remove_absence_time_list, insert_absence_time_list, backward_simulate,  *)
(* resume.                                                                 *)
(*                                                                         *)
(* lg fields (one entry per simulated step; same shape as the harness's    *)
(* log dump): time status mode absL pcost ocost mcost[team] pwcost[wp]     *)
(* ts rem aw af [task]  ws wcost wt [worker]  fs fcost ft [facility]       *)
(* cs cp [component]  pc [workplace]                                       *)
(***************************************************************************)
EXTENDS PdesyStep

Teams(cfg) == 1..cfg.nTeam

EmptyLogs(cfg) ==
  [time |-> 0, status |-> "NONE", mode |-> "NONE", absL |-> <<>>,
   pcost |-> <<>>, ocost |-> <<>>,
   mcost |-> [m \in Teams(cfg) |-> <<>>], pwcost |-> [p \in Wps(cfg) |-> <<>>],
   ts |-> [t \in Tasks(cfg) |-> <<>>], rem |-> [t \in Tasks(cfg) |-> <<>>],
   aw |-> [t \in Tasks(cfg) |-> <<>>], af |-> [t \in Tasks(cfg) |-> <<>>],
   ws |-> [w \in Workers(cfg) |-> <<>>], wcost |-> [w \in Workers(cfg) |-> <<>>],
   wt |-> [w \in Workers(cfg) |-> <<>>],
   fs |-> [f \in Facs(cfg) |-> <<>>], fcost |-> [f \in Facs(cfg) |-> <<>>],
   ft |-> [f \in Facs(cfg) |-> <<>>],
   cs |-> [c \in Comps(cfg) |-> <<>>], cp |-> [c \in Comps(cfg) |-> <<>>],
   pc |-> [p \in Wps(cfg) |-> <<>>]]

\* What one step appends to every log; s = the state after perform (the cost entries
\* were computed from the same resource states one phase earlier).
AppendLogs(cfg, opts, lg, s) ==
  LET working == ~IsAbsenceStep(opts, s.time)
  IN [lg EXCEPT
        !.pcost = Append(@, StepCost(cfg, opts, s)),
        !.ocost = Append(@, StepCost(cfg, opts, s)),
        !.mcost = [m \in Teams(cfg) |-> Append(lg.mcost[m], TeamCost(cfg, opts, s, m))],
        !.pwcost = [p \in Wps(cfg) |-> Append(lg.pwcost[p], WpCost(cfg, opts, s, p))],
        !.ts  = [t \in Tasks(cfg) |-> Append(lg.ts[t], ShowTask(working, s.ts[t]))],
        !.rem = [t \in Tasks(cfg) |-> Append(lg.rem[t], s.rem[t])],
        !.aw  = [t \in Tasks(cfg) |-> Append(lg.aw[t], s.aw[t])],
        !.af  = [t \in Tasks(cfg) |-> Append(lg.af[t], s.af[t])],
        !.ws  = [w \in Workers(cfg) |-> Append(lg.ws[w], ShowRes(working, s.ws[w]))],
        !.wcost = [w \in Workers(cfg) |-> Append(lg.wcost[w], WorkerCost(cfg, opts, s, w))],
        !.wt  = [w \in Workers(cfg) |-> Append(lg.wt[w], s.wt[w])],
        !.fs  = [f \in Facs(cfg) |-> Append(lg.fs[f], ShowRes(working, s.fs[f]))],
        !.fcost = [f \in Facs(cfg) |-> Append(lg.fcost[f], FacCost(cfg, opts, s, f))],
        !.ft  = [f \in Facs(cfg) |-> Append(lg.ft[f], s.ft[f])],
        !.cs  = [c \in Comps(cfg) |-> Append(lg.cs[c], ShowTask(working, s.cs[c]))],
        !.cp  = [c \in Comps(cfg) |-> Append(lg.cp[c], s.cp[c])],
        !.pc  = [p \in Wps(cfg) |-> Append(lg.pc[p], s.pc[p])]]

\* header fields of the log dump follow the project attributes
Header(lg, st, opts) ==
  [lg EXCEPT !.time = st.time, !.status = st.status, !.mode = st.mode, !.absL = opts.absL]

\* ---- a whole run of simulate() -----------------------------------------
\* r = [st, lg]; the loop of BaseProject.simulate from the top of an iteration
RECURSIVE LoopF(_, _, _)
LoopF(cfg, opts, r) ==
  LET u == UpdateF(cfg, r.st)
  IN IF u.crash THEN [st |-> u, lg |-> Header(r.lg, u, opts)]
     ELSE IF Returns(cfg, opts, u)
     THEN LET f == ReturnF(cfg, opts, u) IN [st |-> f, lg |-> Header(r.lg, f, opts)]
     ELSE LET a == AllocF(cfg, opts, PresenceF(cfg, opts, u))
          IN IF a.crash THEN [st |-> a, lg |-> Header(r.lg, a, opts)]
             ELSE LET p == PerformF(cfg, opts, StartPhaseF(cfg, opts, a))
                  IN LoopF(cfg, opts, [st |-> TickF(opts, RecordF(cfg, opts, p)),
                                       lg |-> AppendLogs(cfg, opts, r.lg, p)])

\* ---- the same run as the sequence of phase events the hook of the code emits ---------------
\* (ph = name of the phase just passed, st = state after it, task = the task an "alloc_task" event
\* is about).  A run that dies in list.remove() emits nothing from the dying phase on.
Evt(ph, s, task) == [ph |-> ph, st |-> s, task |-> task]
UpdateEvents(cfg, p) ==
  LET s1 == UpdateFinF(cfg, p)
      s2 == UnplaceF(cfg, s1)
      s3 == UpdateReadyF(cfg, s2)
      s4 == PertF(cfg, s3)
      all == << Evt("finished", s1, 0), Evt("unplaced", s2, 0), Evt("ready", s3, 0), Evt("updated", s4, 0) >>
  IN SubSeq(all, 1, IF s1.crash THEN 0 ELSE IF s2.crash THEN 1 ELSE IF s3.crash THEN 2 ELSE IF s4.crash THEN 3 ELSE 4)
AllocEvents(cfg, opts, b) ==
  IF IsAbsenceStep(opts, b.time) THEN <<>>
  ELSE LET ord == AllocOrder(cfg, opts, b)
           all == [k \in 1..Len(ord) |-> Evt("alloc_task", AllocPrefix(cfg, opts, b, k).st, ord[k])]
       IN SelectSeq(all, LAMBDA e: ~e.st.crash)
RECURSIVE RunEventsLoop(_, _, _, _)
RunEventsLoop(cfg, opts, s, acc) ==
  LET ue == UpdateEvents(cfg, s)
  IN IF Len(ue) < 4 THEN acc \o ue
     ELSE LET u == ue[4].st
          IN IF Returns(cfg, opts, u) THEN acc \o ue \o << Evt("returned", ReturnF(cfg, opts, u), 0) >>
             ELSE LET b  == PresenceF(cfg, opts, u)
                      ae == AllocEvents(cfg, opts, b)
                      a  == AllocF(cfg, opts, b)
                  IN IF a.crash THEN acc \o ue \o << Evt("presence", b, 0) >> \o ae
                     ELSE LET s1 == StartPhaseF(cfg, opts, a)
                              p  == PerformF(cfg, opts, s1)
                              rc == RecordF(cfg, opts, p)
                          IN RunEventsLoop(cfg, opts, TickF(opts, rc),
                                 acc \o ue \o << Evt("presence", b, 0) >> \o ae
                                     \o << Evt("allocated", a, 0), Evt("started", s1, 0), Evt("cost", s1, 0),
                                           Evt("performed", p, 0), Evt("recorded", rc, 0) >>)
RunEventsF(cfg, opts) == RunEventsLoop(cfg, opts, InitF(cfg), << Evt("init", InitF(cfg), 0) >>)
\* the run as the harness would have recorded it from the code
RunRecordF(cfg, opts) ==
  LET r == LoopF(cfg, opts, [st |-> InitF(cfg), lg |-> EmptyLogs(cfg)])     \* (= SimulateF)
  IN [ev |-> RunEventsF(cfg, opts), ret |-> IF r.st.crash THEN "exc:ValueError" ELSE "ok", final |-> r]

\* project.initialize(state_info, log_info) on a project in state/logs r = [st, lg]
\*  log_info:   time, cost list, mode, status and every log are reset
\*  state_info: resources FREE and unassigned, workplaces empty, tasks reset (FINISHED by default
\*              progress only when log_info is given too), PERT at time 0, READY check, components
InitializeFlagsF(cfg, r, stateInfo, logInfo) ==
  LET s0 == IF logInfo THEN [r.st EXCEPT !.time = 0, !.status = "NONE", !.mode = "NONE",
                                         !.rc = [t \in Tasks(cfg) |-> 0]]
            ELSE r.st
      l0 == IF logInfo THEN EmptyLogs(cfg) ELSE r.lg
      blank == BlankState(cfg)
      s1 == IF ~stateInfo THEN s0
            ELSE LET reset == [blank EXCEPT !.time = s0.time, !.status = s0.status, !.mode = s0.mode,
                                            !.rc = s0.rc,
                                            !.ts = [t \in Tasks(cfg) |->
                                                      IF logInfo THEN InitTaskState(cfg, t) ELSE "NONE"]]
                     pert == PertF(cfg, [reset EXCEPT !.time = 0])
                 IN CompStateF(cfg, ReadyF(cfg, [pert EXCEPT !.time = s0.time]))
  IN [st |-> s1, lg |-> Header(l0, s1, [absL |-> l0.absL])]

\* simulate() with both initialize flags on
SimulateF(cfg, opts) == LoopF(cfg, opts, [st |-> InitF(cfg), lg |-> EmptyLogs(cfg)])
\* simulate(initialize_state_info=False, initialize_log_info=False) on result r
ResumeF(cfg, opts, r) == LoopF(cfg, opts, [st |-> [r.st EXCEPT !.mode = "FORWARD"], lg |-> r.lg])

\* ---- edits of finished logs ---------------------------------------------
Rev(s) == [i \in 1..Len(s) |-> s[Len(s) + 1 - i]]
LogFamilies == {"mcost", "pwcost", "ts", "rem", "aw", "af", "ws", "wcost", "wt", "fs", "fcost",
                "ft", "cs", "cp", "pc"}
MapLogs(lg, F(_)) ==
  [k \in DOMAIN lg |->
     IF k \in {"pcost", "ocost"} THEN F(lg[k])
     ELSE IF k \in LogFamilies THEN [i \in DOMAIN lg[k] |-> F(lg[k][i])]
     ELSE lg[k]]

\* reverse_log_information()
ReverseLogsF(lg) ==
  LET n == Len(lg.pcost)
      m == MapLogs(lg, Rev)
      flipped == { n - a - 1 : a \in ToSet(lg.absL) }
  IN [m EXCEPT !.absL = SetToSortSeq({ a \in flipped : a >= 0 }, <)]

\* remove_absence_time_list(): every log pops the listed (0-based) steps from the largest to the
\* smallest, each only if it lies inside the log at that moment (a step listed twice is popped
\* twice); time becomes the common length
PopAt(s, i) == SubSeq(s, 1, i) \o SubSeq(s, i + 2, Len(s))
PopAll(s, idxDesc) == FoldLeft(LAMBDA acc, a: IF a < Len(acc) THEN PopAt(acc, a) ELSE acc, s, idxDesc)
RemoveAbsenceF(lg) ==
  LET desc == SortSeq(lg.absL, LAMBDA a, b: a > b)
      m == MapLogs(lg, LAMBDA s: PopAll(s, desc))
  IN [m EXCEPT !.absL = <<>>, !.time = Len(m.pcost)]

\* insert_absence_time_list(L): the steps of L that are not absence steps yet are inserted in
\* ascending order, each only if it lies inside the logs as they are at that moment; an inserted
\* row repeats the previous remaining work / allocation / placement, costs nothing, shows
\* resources FREE and tasks/components in the state the encoders of the library choose.
InsAt(s, i, x) == SubSeq(s, 1, i) \o <<x>> \o SubSeq(s, i + 1, Len(s))     \* i = 0-based index
InsState(s, i) ==
  IF i = 0 THEN "NONE"
  ELSE LET before == s[i]  after == s[i + 1]
       IN IF before = "WORKING" THEN (IF after = "FINISHED" THEN "FINISHED" ELSE "READY")
          ELSE IF before = "NONE" /\ after = "WORKING" THEN "READY"
          ELSE before
InsertOne(cfg, lg, i) ==
  IF i >= Len(lg.pcost) THEN lg
  ELSE LET prev(s, dflt) == IF i = 0 THEN dflt ELSE s[i]
       IN [lg EXCEPT
             !.pcost = InsAt(@, i, 0), !.ocost = InsAt(@, i, 0),
             !.mcost = [m \in Teams(cfg) |-> InsAt(lg.mcost[m], i, 0)],
             !.pwcost = [p \in Wps(cfg) |-> InsAt(lg.pwcost[p], i, 0)],
             !.ts  = [t \in Tasks(cfg) |-> InsAt(lg.ts[t], i, InsState(lg.ts[t], i))],
             !.rem = [t \in Tasks(cfg) |-> InsAt(lg.rem[t], i, prev(lg.rem[t], InitRem(cfg, t)))],
             !.aw  = [t \in Tasks(cfg) |-> InsAt(lg.aw[t], i, prev(lg.aw[t], <<-1>>))],
             !.af  = [t \in Tasks(cfg) |-> InsAt(lg.af[t], i, prev(lg.af[t], <<-1>>))],
             !.ws  = [w \in Workers(cfg) |-> InsAt(lg.ws[w], i, "FREE")],
             !.wcost = [w \in Workers(cfg) |-> InsAt(lg.wcost[w], i, 0)],
             !.wt  = [w \in Workers(cfg) |-> InsAt(lg.wt[w], i, prev(lg.wt[w], <<-1>>))],
             !.fs  = [f \in Facs(cfg) |-> InsAt(lg.fs[f], i, "FREE")],
             !.fcost = [f \in Facs(cfg) |-> InsAt(lg.fcost[f], i, 0)],
             !.ft  = [f \in Facs(cfg) |-> InsAt(lg.ft[f], i, prev(lg.ft[f], <<-1>>))],
             !.cs  = [c \in Comps(cfg) |-> InsAt(lg.cs[c], i, InsState(lg.cs[c], i))],
             !.cp  = [c \in Comps(cfg) |-> InsAt(lg.cp[c], i, prev(lg.cp[c], 0))],
             !.pc  = [p \in Wps(cfg) |-> InsAt(lg.pc[p], i, prev(lg.pc[p], <<>>))]]
InsertAbsenceF(cfg, lg, L) ==
  LET new == SelectSeq(L, LAMBDA t: ~Mem(lg.absL, t))
      \* (a step listed twice in L is inserted twice)
      res == FoldLeft(LAMBDA a, i: InsertOne(cfg, a, i), lg, SortSeq(new, LAMBDA a, b: a < b))
  IN [res EXCEPT !.time = lg.time + (Len(res.pcost) - Len(lg.pcost)), !.absL = lg.absL \o new]

\* ---- backward_simulate: the model the inner simulate() runs on ---------------------------
\* reverse_dependencies() swaps input/output lists of tasks and workplaces; with
\* considering_due_time_of_tail_tasks a helper auto task is put in front of every tail task
\* whose due time is smaller than the largest one.
RevDeps(cfg) == [i \in DOMAIN cfg.deps |-> <<cfg.deps[i][2], cfg.deps[i][1], cfg.deps[i][3]>>]
RevInputs(cfg, p) == SelectSeq([q \in Wps(cfg) |-> q], LAMBDA q: Mem(cfg.wps[q].inputs, p))
BackwardCfg(cfg, due) ==
  LET n == Len(cfg.tasks)
      rd == RevDeps(cfg)
      c1 == [cfg EXCEPT !.deps = rd,
                        !.wps = [p \in Wps(cfg) |-> [cfg.wps[p] EXCEPT !.inputs = RevInputs(cfg, p)]]]
      tails == SelectSeq([t \in 1..n |-> t], LAMBDA t: Len(InEdges(c1, t)) = 0)
      maxdue == Max({ cfg.tasks[t].due : t \in ToSet(tails) })
      need == SelectSeq(tails, LAMBDA t: cfg.tasks[t].due < maxdue)
      helper(j) == [cfg.tasks[1] EXCEPT
                      !.work = (maxdue - cfg.tasks[need[j]].due) * cfg.Q, !.prog = 0, !.auto = TRUE,
                      !.rate = cfg.Q, !.needF = FALSE, !.comp = 0, !.teams = <<>>, !.wps = <<>>,
                      !.fixWon = FALSE, !.fixW = <<>>, !.fixFon = FALSE, !.fixF = <<>>,
                      !.wrule = "SSP", !.frule = "SSP", !.prule = "FSS", !.due = -1,
                      !.rank = 100 + j, !.sub = FALSE]
  IN IF ~due \/ Len(need) = 0 THEN c1
     ELSE [c1 EXCEPT
             !.tasks = cfg.tasks \o [j \in 1..Len(need) |-> helper(j)],
             !.deps = rd \o [j \in 1..Len(need) |-> <<n + j, need[j], "FS">>],
             !.workers = [w \in Workers(cfg) |->
                            [cfg.workers[w] EXCEPT !.skill = @ \o [j \in 1..Len(need) |-> -1]]],
             !.facs = [f \in Facs(cfg) |->
                            [cfg.facs[f] EXCEPT !.skill = @ \o [j \in 1..Len(need) |-> -1]]]]
\* backward_simulate(...) on a freshly built project, as a function: the forward run of the
\* reversed model (helper tasks for due times appended), the logs of the helper tasks dropped with
\* the helpers, and - with reverse_log_information - every log turned round
BackwardF(cfg, opts, due, reverse) ==
  LET n  == Len(cfg.tasks)
      r  == SimulateF(BackwardCfg(cfg, due), opts)
      lg == [r.lg EXCEPT !.ts = SubSeq(@, 1, n), !.rem = SubSeq(@, 1, n),
                         !.aw = SubSeq(@, 1, n), !.af = SubSeq(@, 1, n), !.mode = "BACKWARD"]
  IN IF reverse THEN ReverseLogsF(lg) ELSE lg
=============================================================================
