---------------------------- MODULE Gen_SpecRun ----------------------------
(* Exports, for every cfg of the file IOEnv.CFG_FILE (a JSON array), the run of the            *)
(* specification in the format of a recorded execution (events, return value, final state and  *)
(* logs): the harness validates it with TracePdesy like a run of the code.  Used to decide     *)
(* whether a falsified clause on a nested product is the recorded finding (the specification   *)
(* of the defective behaviour falsifies the same clause on the same model) or something else.  *)
EXTENDS PdesyApi, Json, IOUtils, TLC
FileCfgs == JsonDeserialize(IOEnv.CFG_FILE)
ASSUME ndJsonSerialize(IOEnv.OUT_FILE,
          [i \in DOMAIN FileCfgs |-> [id |-> FileCfgs[i].id] @@ RunRecordF(FileCfgs[i], FileCfgs[i].opts)])
VARIABLE x
Init == x = 0
Next == FALSE /\ x' = x
=============================================================================
