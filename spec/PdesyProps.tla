---------------------------- MODULE PdesyProps ----------------------------
(***************************************************************************)
(* The listed properties (C01..C20 of /verif/properties.jsonl) as named    *)
(* clauses over the specification's variables.                             *)
(*                                                                         *)
(* These operators - and nothing else - are what the model-checking        *)
(* instances put after INVARIANT / PROPERTY (L1) and what the trace        *)
(* specification evaluates on the states, steps and logs recorded from the *)
(* real code (L3).  Every clause is written independently of the phase     *)
(* functions of PdesyStep (it states *what* must hold, not how the code    *)
(* gets there), and is the weakest reading of the property text.           *)
(*                                                                         *)
(* Shapes:  *_S(cfg, opts, ph, s)          state clause at an event         *)
(*          *_A(cfg, opts, ph, s0, s1, b)  step clause between consecutive *)
(*                                         events (s0 ticked; b = state at *)
(*                                         the step's "presence" event)    *)
(*          *_L(cfg, opts, lg)             clause on a complete log dump    *)
(* Each returns a sequence of <<clause name, truth value>>.                *)
(***************************************************************************)
EXTENDS PdesyReport

AllTrue(cl) == \A i \in DOMAIN cl: cl[i][2]
Started(s) == s \in {"WORKING", "FINISHED"}
Working(opts, s) == ~IsAbsenceStep(opts, s.time)
Count(seq, x) == Cardinality({ i \in DOMAIN seq : seq[i] = x })
IsPrefixOf(a, b) == Len(a) <= Len(b) /\ \A i \in DOMAIN a: a[i] = b[i]
\* row k of the logs of a simulate run belongs to time (k - 1) * unit_time; absence lists hold times
RowAbs(opts, lg, k) == Mem(lg.absL, (k - 1) * Unit(opts))
RowAbsW(cfg, opts, w, k) == Mem(cfg.workers[w].abs, (k - 1) * Unit(opts))
RowAbsF(cfg, opts, f, k) == Mem(cfg.facs[f].abs, (k - 1) * Unit(opts))
AbsentW(cfg, opts, s, w) == IsAbsenceStep(opts, s.time) \/ Mem(cfg.workers[w].abs, s.time)
AbsentF(cfg, opts, s, f) == IsAbsenceStep(opts, s.time) \/ Mem(cfg.facs[f].abs, s.time)
\* phases of a step at which resource states are settled for the step
Settled(ph) == ph \in {"started", "cost", "performed", "recorded"}
NonExempt(cfg) == { t \in Tasks(cfg) : ~DoneByDefault(cfg, t) }

\* =========================== C01 ===========================================
C01_StartGate(cfg, ts, t) ==
  /\ \A p \in Preds(cfg, t, "FS"): ts[p] = "FINISHED"
  /\ \A p \in Preds(cfg, t, "SS"): Started(ts[p])
C01_EndGate(cfg, ts, t) ==
  /\ \A p \in Preds(cfg, t, "FF"): ts[p] = "FINISHED"
  /\ \A p \in Preds(cfg, t, "SF"): Started(ts[p])
C01_S(cfg, opts, ph, s) ==
  << <<"C01.S.startgate", \A t \in NonExempt(cfg): s.ts[t] # "NONE" => C01_StartGate(cfg, s.ts, t)>>,
     <<"C01.S.endgate", \A t \in NonExempt(cfg): s.ts[t] = "FINISHED" => C01_EndGate(cfg, s.ts, t)>>,
     <<"C01.S.exempt", \A t \in Tasks(cfg): DoneByDefault(cfg, t) => s.ts[t] = "FINISHED">>,
     <<"C01.S.alphabet", \A t \in Tasks(cfg): s.ts[t] \in {"NONE", "READY", "WORKING", "FINISHED"}>> >>
C01_A(cfg, opts, ph, s0, s1, b) ==
  << <<"C01.A.forward", \A t \in Tasks(cfg): Rank4(s1.ts[t]) >= Rank4(s0.ts[t])>> >>
\* on the logs: index k and k+1 are 1-based positions; the entry at position k+1 belongs
\* to step k, which is an absence step iff k \in absL
C01_L(cfg, opts, lg) ==
  LET n == Len(lg.pcost)
      abs(k) == RowAbs(opts, lg, k)
  IN << <<"C01.L.fs", \A t \in NonExempt(cfg): \A k \in 1..Len(lg.ts[t]):
                         lg.ts[t][k] # "NONE" => \A p \in Preds(cfg, t, "FS"): lg.ts[p][k] = "FINISHED">>,
        <<"C01.L.ff", \A t \in NonExempt(cfg): \A k \in 1..Len(lg.ts[t]):
                         lg.ts[t][k] = "FINISHED" => \A p \in Preds(cfg, t, "FF"): lg.ts[p][k] = "FINISHED">>,
        <<"C01.L.ss", lg.absL = <<>> =>
                       \A t \in NonExempt(cfg): \A k \in 1..Len(lg.ts[t]):
                         lg.ts[t][k] # "NONE" =>
                           \A p \in Preds(cfg, t, "SS"): \E j \in 1..k: Started(lg.ts[p][j])>>,
        <<"C01.L.sf", lg.absL = <<>> =>
                       \A t \in NonExempt(cfg): \A k \in 1..Len(lg.ts[t]):
                         lg.ts[t][k] = "FINISHED" =>
                           \A p \in Preds(cfg, t, "SF"): \E j \in 1..k: Started(lg.ts[p][j])>>,
        <<"C01.L.forward", \A t \in Tasks(cfg): \A k \in 1..(Len(lg.ts[t]) - 1):
                         \/ Rank4(lg.ts[t][k + 1]) >= Rank4(lg.ts[t][k])
                         \/ (lg.ts[t][k] = "WORKING" /\ lg.ts[t][k + 1] = "READY" /\ abs(k + 1))>>,
        <<"C01.L.exempt", \A t \in Tasks(cfg): DoneByDefault(cfg, t) =>
                         \A k \in 1..Len(lg.ts[t]): lg.ts[t][k] = "FINISHED">> >>

\* =========================== C02 ===========================================
\* contribution of what is allocated to t in state s (resource states as of s)
\* "nothing from an absent resource": absent by the absence lists, whatever state is shown
C02_W(cfg, opts, s, w, t) ==
  IF Skill(cfg, w, t) > 0 /\ ~AbsentW(cfg, opts, s, w) THEN Skill(cfg, w, t) ELSE 0
C02_F(cfg, opts, s, f, t) ==
  IF FSkill(cfg, f, t) > 0 /\ ~AbsentF(cfg, opts, s, f) THEN FSkill(cfg, f, t) ELSE 0
C02_Contribution(cfg, opts, s, t) ==
  IF cfg.tasks[t].auto THEN cfg.tasks[t].rate
  ELSE IF cfg.tasks[t].needF
  THEN SumOver(1..Min2(Len(s.aw[t]), Len(s.af[t])),
               LAMBDA i: C02_W(cfg, opts, s, s.aw[t][i], t) * C02_F(cfg, opts, s, s.af[t][i], t))
  ELSE SumOver(DOMAIN s.aw[t], LAMBDA i: C02_W(cfg, opts, s, s.aw[t][i], t))
C02_Progresses(cfg, opts, s, t) ==
  /\ s.ts[t] = "WORKING"
  /\ (Working(opts, s) \/ (opts.autoAbs /\ cfg.tasks[t].auto))
C02_S(cfg, opts, ph, s) ==
  << <<"C02.S.finishedzero", \A t \in Tasks(cfg): s.ts[t] = "FINISHED" => s.rem[t] = 0>> >>
C02_A(cfg, opts, ph, s0, s1, b) ==
  << <<"C02.A.perform", ph = "performed" =>
         \A t \in Tasks(cfg):
            s1.rem[t] = IF C02_Progresses(cfg, opts, s0, t)
                        THEN s0.rem[t] - C02_Contribution(cfg, opts, s0, t) ELSE s0.rem[t]>>,
     <<"C02.A.elsewhere", ph # "performed" =>
         \A t \in Tasks(cfg):
            \/ s1.rem[t] = s0.rem[t]
            \/ (ph = "finished" /\ s0.ts[t] = "WORKING" /\ s1.ts[t] = "FINISHED" /\ s1.rem[t] = 0)>>,
     <<"C02.A.notearly", \A t \in Tasks(cfg):
            s1.ts[t] = "FINISHED" /\ s0.ts[t] # "FINISHED" =>
              ph = "finished" /\ s0.ts[t] = "WORKING" /\ s0.rem[t] <= 0>>,
     \* finished at the first update after reaching zero, dependencies permitting: a task
     \* that is still WORKING with no work left after the finish check has an unmet gate
     <<"C02.A.prompt", ph = "finished" =>
         \A t \in Tasks(cfg):
            s1.ts[t] = "WORKING" /\ s1.rem[t] <= 0 => ~C01_EndGate(cfg, s1.ts, t)>> >>
C02_L(cfg, opts, lg) ==
  << <<"C02.L.finishedzero", \A t \in Tasks(cfg): \A k \in 1..Len(lg.ts[t]):
                                lg.ts[t][k] = "FINISHED" => lg.rem[t][k] = 0>>,
     <<"C02.L.idle", \A t \in Tasks(cfg): \A k \in 1..(Len(lg.ts[t]) - 1):
          \* remaining work only changes across a step in which the task was WORKING
          \* (shown READY at an absence step) or when it is reported FINISHED
          lg.rem[t][k + 1] # lg.rem[t][k] =>
             \/ lg.ts[t][k + 1] = "WORKING"
             \/ (lg.ts[t][k + 1] = "READY" /\ RowAbs(opts, lg, k + 1))
             \/ lg.ts[t][k + 1] = "FINISHED">>,
     \* finished at the very next step after reaching zero, dependencies permitting: judged on the
     \* logs (FF predecessors FINISHED at that next step; SF predecessors started one step earlier,
     \* because a start within the next step comes after its finish check)
     <<"C02.L.prompt", \A t \in NonExempt(cfg): \A k \in 1..(Len(lg.ts[t]) - 1):
          /\ lg.rem[t][k] <= 0
          /\ (lg.ts[t][k] = "WORKING" \/ (lg.ts[t][k] = "READY" /\ RowAbs(opts, lg, k) /\ k > 1 /\ lg.ts[t][k - 1] = "WORKING"))
          /\ (\A p \in Preds(cfg, t, "FF"): lg.ts[p][k + 1] = "FINISHED")
          /\ (\A p \in Preds(cfg, t, "SF"): \E j \in 1..k: Started(lg.ts[p][j]))
          => lg.ts[t][k + 1] = "FINISHED">>,
     <<"C02.L.first", \A t \in Tasks(cfg): Len(lg.rem[t]) > 0 =>
          \/ lg.rem[t][1] = InitRem(cfg, t)
          \/ lg.ts[t][1] \in {"WORKING", "READY"}>> >>

\* =========================== C03 ===========================================
C03_S(cfg, opts, ph, s) ==
  << <<"C03.S.worker-once", \A w \in Workers(cfg):
          SumOver(Tasks(cfg), LAMBDA t: Count(s.aw[t], w)) <= 1 /\ Len(s.wt[w]) <= 1>>,
     <<"C03.S.facility-once", \A f \in Facs(cfg):
          SumOver(Tasks(cfg), LAMBDA t: Count(s.af[t], f)) <= 1 /\ Len(s.ft[f]) <= 1>>,
     <<"C03.S.twoway-worker", \A w \in Workers(cfg): \A t \in Tasks(cfg):
          Mem(s.aw[t], w) <=> Mem(s.wt[w], t)>>,
     <<"C03.S.twoway-facility", \A f \in Facs(cfg): \A t \in Tasks(cfg):
          Mem(s.af[t], f) <=> Mem(s.ft[f], t)>>,
     <<"C03.S.holders", \A t \in Tasks(cfg):
          Len(s.aw[t]) > 0 \/ Len(s.af[t]) > 0 => s.ts[t] \in {"READY", "WORKING"}>>,
     <<"C03.S.worker-state", Settled(ph) => \A w \in Workers(cfg):
          (s.ws[w] = "WORKING") <=> (Len(s.wt[w]) > 0 /\ ~AbsentW(cfg, opts, s, w))>>,
     <<"C03.S.facility-state", Settled(ph) => \A f \in Facs(cfg):
          (s.fs[f] = "WORKING") <=> (Len(s.ft[f]) > 0 /\ ~AbsentF(cfg, opts, s, f))>>,
     <<"C03.S.absent-state", Settled(ph) =>
          /\ \A w \in Workers(cfg): (s.ws[w] = "ABSENCE") <=> AbsentW(cfg, opts, s, w)
          /\ \A f \in Facs(cfg): (s.fs[f] = "ABSENCE") <=> AbsentF(cfg, opts, s, f)>> >>
C03_A(cfg, opts, ph, s0, s1, b) ==
  << <<"C03.A.release", \A t \in Tasks(cfg):
          s1.ts[t] = "FINISHED" /\ s0.ts[t] # "FINISHED" =>
             /\ s1.aw[t] = <<>> /\ s1.af[t] = <<>>
             /\ \A w \in Workers(cfg): ~Mem(s1.wt[w], t)
             /\ \A f \in Facs(cfg): ~Mem(s1.ft[f], t)>>,
     \* allocations change only in the allocation phase and at the release on finish
     <<"C03.A.stable", ph \notin {"alloc_task", "allocated", "finished"} =>
          s1.aw = s0.aw /\ s1.af = s0.af /\ s1.wt = s0.wt /\ s1.ft = s0.ft>> >>
C03_L(cfg, opts, lg) ==
  << <<"C03.L.twoway-worker", \A w \in Workers(cfg): \A t \in Tasks(cfg): \A k \in 1..Len(lg.ts[t]):
          lg.aw[t][k] # <<-1>> => (Mem(lg.aw[t][k], w) <=> Mem(lg.wt[w][k], t))>>,
     <<"C03.L.twoway-facility", \A f \in Facs(cfg): \A t \in Tasks(cfg): \A k \in 1..Len(lg.ts[t]):
          lg.af[t][k] # <<-1>> => (Mem(lg.af[t][k], f) <=> Mem(lg.ft[f][k], t))>>,
     <<"C03.L.worker-once", \A w \in Workers(cfg): \A k \in 1..Len(lg.ws[w]):
          SumOver(Tasks(cfg), LAMBDA t: Count(lg.aw[t][k], w)) <= 1>>,
     <<"C03.L.facility-once", \A f \in Facs(cfg): \A k \in 1..Len(lg.fs[f]):
          SumOver(Tasks(cfg), LAMBDA t: Count(lg.af[t][k], f)) <= 1>>,
     <<"C03.L.holders", \A t \in Tasks(cfg): \A k \in 1..Len(lg.ts[t]):
          Len(lg.aw[t][k]) > 0 /\ lg.aw[t][k] # <<-1>> => lg.ts[t][k] \in {"READY", "WORKING"}>>,
     <<"C03.L.worker-state", \A w \in Workers(cfg): \A k \in 1..Len(lg.ws[w]):
          (lg.ws[w][k] = "WORKING") <=>
             (Len(lg.wt[w][k]) > 0 /\ ~RowAbs(opts, lg, k) /\ ~RowAbsW(cfg, opts, w, k))>> >>

\* =========================== C04 ===========================================
\* judged at the "allocated" event against the state b at the step's "presence" event
C04_NewW(b, s, t) == SubSeq(s.aw[t], Len(b.aw[t]) + 1, Len(s.aw[t]))
C04_NewF(b, s, t) == SubSeq(s.af[t], Len(b.af[t]) + 1, Len(s.af[t]))
C04_A(cfg, opts, ph, s0, s1, b) ==
  IF ph # "allocated" THEN <<>>
  ELSE
  << <<"C04.A.append-only", \A t \in Tasks(cfg):
          IsPrefixOf(b.aw[t], s1.aw[t]) /\ IsPrefixOf(b.af[t], s1.af[t])>>,
     <<"C04.A.worker-eligible", \A t \in Tasks(cfg): \A w \in ToSet(C04_NewW(b, s1, t)):
          /\ Skill(cfg, w, t) > 0
          /\ TeamTargets(cfg, w, t)
          /\ b.ws[w] = "FREE"
          /\ ~AbsentW(cfg, opts, b, w)
          /\ (cfg.tasks[t].fixWon => Mem(cfg.tasks[t].fixW, w))>>,
     <<"C04.A.solo", \A t \in Tasks(cfg):
          /\ (Len(s1.aw[t]) > 1 => \A i \in DOMAIN s1.aw[t]: ~cfg.workers[s1.aw[t][i]].solo)
          /\ (Len(s1.af[t]) > 1 => \A i \in DOMAIN s1.af[t]: ~cfg.facs[s1.af[t][i]].solo)>>,
     <<"C04.A.pairs", \A t \in Tasks(cfg):
          IF cfg.tasks[t].needF
          THEN /\ Len(s1.aw[t]) = Len(s1.af[t])
               /\ Len(b.aw[t]) = Len(b.af[t])
          ELSE s1.af[t] = <<>>>>,
     <<"C04.A.facility-eligible", \A t \in Tasks(cfg):
          cfg.tasks[t].needF /\ Len(s1.aw[t]) = Len(s1.af[t]) /\ Len(b.aw[t]) = Len(b.af[t]) =>
            \A i \in (Len(b.af[t]) + 1)..Len(s1.af[t]):
               LET f == s1.af[t][i]  w == s1.aw[t][i]
               IN /\ FSkill(cfg, f, t) > 0
                  /\ WpTargets(cfg, cfg.facs[f].wp, t)
                  /\ (cfg.tasks[t].fixFon => Mem(cfg.tasks[t].fixF, f))
                  /\ CanOperate(cfg, w, f)
                  /\ b.fs[f] = "FREE" /\ b.ft[f] = <<>>
                  /\ ~AbsentF(cfg, opts, b, f)>>,
     <<"C04.A.only-open-tasks", \A t \in Tasks(cfg):
          Len(s1.aw[t]) > Len(b.aw[t]) => b.ts[t] \in {"READY", "WORKING"} /\ ~cfg.tasks[t].auto>> >>
C04_L(cfg, opts, lg) ==
  << <<"C04.L.static", \A t \in Tasks(cfg): \A k \in 1..Len(lg.aw[t]):
          lg.aw[t][k] # <<-1>> =>
          /\ \A w \in ToSet(lg.aw[t][k]):
               /\ w \in Workers(cfg) /\ Skill(cfg, w, t) > 0 /\ TeamTargets(cfg, w, t)
               /\ (cfg.tasks[t].fixWon => Mem(cfg.tasks[t].fixW, w))
          /\ (Len(lg.aw[t][k]) > 1 => \A w \in ToSet(lg.aw[t][k]): ~cfg.workers[w].solo)
          /\ (Len(lg.af[t][k]) > 1 => \A f \in ToSet(lg.af[t][k]): ~cfg.facs[f].solo)
          /\ (cfg.tasks[t].needF => Len(lg.aw[t][k]) = Len(lg.af[t][k]))
          /\ (cfg.tasks[t].needF /\ Len(lg.aw[t][k]) = Len(lg.af[t][k]) =>
                \A i \in DOMAIN lg.af[t][k]:
                   /\ FSkill(cfg, lg.af[t][k][i], t) > 0
                   /\ WpTargets(cfg, cfg.facs[lg.af[t][k][i]].wp, t)
                   /\ (cfg.tasks[t].fixFon => Mem(cfg.tasks[t].fixF, lg.af[t][k][i]))
                   /\ CanOperate(cfg, lg.aw[t][k][i], lg.af[t][k][i]))>>,
     \* a worker that first appears on a task at step k was not absent at step k
     <<"C04.L.present", \A t \in Tasks(cfg): \A k \in 1..Len(lg.aw[t]):
          lg.aw[t][k] # <<-1>> =>
          \A w \in ToSet(lg.aw[t][k]):
             (k = 1 \/ lg.aw[t][k - 1] = <<-1>> \/ ~Mem(lg.aw[t][k - 1], w)) =>
                ~RowAbs(opts, lg, k) /\ ~RowAbsW(cfg, opts, w, k)>> >>

\* =========================== C05 ===========================================
\* static feasibility (validated against the specification itself by the model checker)
C05_Needs(cfg, t) == ~cfg.tasks[t].auto /\ ~DoneByDefault(cfg, t)
C05_LinkedFFSF(cfg, t) ==
  \E d \in ToSet(cfg.deps): d[3] \in {"FF", "SF"} /\ (d[1] = t \/ d[2] = t)
C05_Own(cfg, w, t) == EligibleW(cfg, w, t) /\ \A u \in Tasks(cfg) \ {t}: ~EligibleW(cfg, w, u)
C05_Acyclic(cfg) ==
  LET R == { <<d[1], d[2]>> : d \in ToSet(cfg.deps) }
      RECURSIVE Reach(_, _)
      Reach(S, n) == IF n = 0 THEN S
                     ELSE Reach(S \cup { y \in Tasks(cfg) : \E x \in S: <<x, y>> \in R }, n - 1)
  IN \A t \in Tasks(cfg):
        t \notin Reach({ y \in Tasks(cfg) : <<t, y>> \in R }, Len(cfg.tasks))
C05_Feasible(cfg) ==
  /\ C05_Acyclic(cfg)
  /\ \A t \in Tasks(cfg): ~cfg.tasks[t].needF /\ cfg.tasks[t].comp = 0
  /\ \A t \in Tasks(cfg): cfg.tasks[t].auto => cfg.tasks[t].rate > 0
  /\ \A t \in Tasks(cfg): C05_Needs(cfg, t) =>
        IF C05_LinkedFFSF(cfg, t)
        THEN \E w \in Workers(cfg): C05_Own(cfg, w, t) /\ ~cfg.workers[w].solo
        ELSE \E w \in Workers(cfg): EligibleW(cfg, w, t)
  \* a worker that is solo could be kept out of a task by others; keep it simple: no solo
  /\ \A w \in Workers(cfg): ~cfg.workers[w].solo
  /\ \A t \in Tasks(cfg): ~cfg.tasks[t].fixWon
C05_MinRate(cfg, t) ==
  IF cfg.tasks[t].auto THEN cfg.tasks[t].rate
  ELSE Min({ Skill(cfg, w, t) : w \in { x \in Workers(cfg) : EligibleW(cfg, x, t) } })
C05_WorkBound(cfg, opts) ==
  SumOver({ t \in Tasks(cfg) : ~DoneByDefault(cfg, t) },
          LAMBDA t: IF InitRem(cfg, t) > 0 /\ (cfg.tasks[t].auto \/ \E w \in Workers(cfg): EligibleW(cfg, w, t))
                    THEN (InitRem(cfg, t) + C05_MinRate(cfg, t) - 1) \div C05_MinRate(cfg, t) + 1
                    ELSE 1)
  + Len(opts.absL)
  + SumOver(Workers(cfg), LAMBDA w: Len(cfg.workers[w].abs))
  + 2
C05_Hopeless(cfg) ==
  \E t \in Tasks(cfg): C05_Needs(cfg, t) /\ ~\E w \in Workers(cfg): EligibleW(cfg, w, t)
\* at the end of a run: s = final state, ret = how simulate() ended
C05_End(cfg, opts, s, ret) ==
  << <<"C05.R.returns", ret = "ok">>,
     <<"C05.R.truthful", ret = "ok" =>
          /\ s.status \in {"SUCCESS", "FAILURE"}
          /\ (s.status = "SUCCESS" <=> \A t \in Tasks(cfg): s.ts[t] = "FINISHED")
          /\ (s.status = "FAILURE" => s.time >= opts.maxTime)>>,
     <<"C05.R.feasible", ret = "ok" /\ C05_Feasible(cfg) /\ opts.maxTime > C05_WorkBound(cfg, opts)
                          => s.status = "SUCCESS">>,
     <<"C05.R.hopeless", ret = "ok" /\ C05_Hopeless(cfg) => s.status # "SUCCESS">> >>
C05_S(cfg, opts, ph, s) ==
  << <<"C05.S.maxtime", ph \in {"presence", "allocated", "started", "cost", "performed", "recorded"}
                         => s.time < opts.maxTime>> >>

\* =========================== C06 ===========================================
C06_CanAccept(cfg, s, t, w) ==
  /\ \A i \in DOMAIN s.aw[t]: ~cfg.workers[s.aw[t][i]].solo
  /\ (cfg.workers[w].solo => Len(s.aw[t]) = 0)
\* facility-needing task of a flat (not nested) component that carries only this task
C06_PairTask(cfg, t) ==
  /\ cfg.tasks[t].needF /\ cfg.tasks[t].comp # 0
  /\ TasksOf(cfg, cfg.tasks[t].comp) = {t}
  /\ IsTop(cfg, cfg.tasks[t].comp) /\ Children(cfg, cfg.tasks[t].comp) = <<>>
C06_S(cfg, opts, ph, s) ==
  << <<"C06.S.ready", ph = "updated" /\ Working(opts, s) =>
          \A t \in NonExempt(cfg): s.ts[t] = "NONE" => ~C01_StartGate(cfg, s.ts, t)>>,
     <<"C06.S.auto", Settled(ph) /\ Working(opts, s) =>
          \A t \in Tasks(cfg): cfg.tasks[t].auto /\ cfg.tasks[t].comp = 0 => s.ts[t] # "READY">>,
     <<"C06.S.idle", Settled(ph) /\ Working(opts, s) =>
          \A w \in Workers(cfg): s.ws[w] = "FREE" =>
            \A t \in Tasks(cfg):
               ~( /\ s.ts[t] \in {"READY", "WORKING"}
                  /\ ~cfg.tasks[t].auto /\ ~cfg.tasks[t].needF
                  /\ EligibleW(cfg, w, t)
                  /\ C06_CanAccept(cfg, s, t, w) )>>,
     <<"C06.S.idle-pair", Settled(ph) /\ Working(opts, s) =>
          \A w \in Workers(cfg): s.ws[w] = "FREE" =>
            \A t \in Tasks(cfg): C06_PairTask(cfg, t) /\ s.ts[t] \in {"READY", "WORKING"} =>
              LET p == s.cp[cfg.tasks[t].comp]
              IN p # 0 =>
                 \A f \in Facs(cfg):
                    ~( /\ cfg.facs[f].wp = p /\ s.fs[f] = "FREE" /\ s.ft[f] = <<>>
                       /\ EligibleF(cfg, f, t) /\ EligibleW(cfg, w, t) /\ CanOperate(cfg, w, f)
                       /\ C06_CanAccept(cfg, s, t, w)
                       /\ \A i \in DOMAIN s.af[t]: ~cfg.facs[s.af[t][i]].solo
                       /\ (cfg.facs[f].solo => Len(s.af[t]) = 0) )>> >>
\* a READY facility task whose component is still nowhere after the allocation phase, although a
\* candidate workplace had room for it during the whole phase (space counted pessimistically:
\* everything that was there at the start or is there at the end), offers its skill, and holds a
\* free facility that a free eligible worker can operate (b = state at the start of the phase)
C06_IdleUnplaced(cfg, s1, b) ==
  \A t \in Tasks(cfg):
    LET c == cfg.tasks[t].comp
    IN (/\ cfg.tasks[t].needF /\ ~cfg.tasks[t].auto /\ c # 0
        /\ b.ts[t] = "READY" /\ b.cp[c] = 0 /\ s1.cp[c] = 0
        /\ CompIsReady(cfg, b, c)
        /\ \A u \in TasksOf(cfg, c): Len(s1.aw[u]) = 0) =>
       \A p \in ToSet(cfg.tasks[t].wps):
          LET there == ToSet(b.pc[p]) \cup ToSet(s1.pc[p])
              room  == cfg.wps[p].cap - SumOver(there, LAMBDA x: cfg.comps[x].space)
          IN ~( /\ room >= cfg.comps[c].space
                /\ WpSkillSum(cfg, p, t) > 0
                /\ \E w \in Workers(cfg): \E f \in Facs(cfg):
                      /\ s1.ws[w] = "FREE" /\ EligibleW(cfg, w, t)
                      /\ cfg.facs[f].wp = p /\ s1.fs[f] = "FREE" /\ s1.ft[f] = <<>>
                      /\ EligibleF(cfg, f, t) /\ CanOperate(cfg, w, f) )
C06_A(cfg, opts, ph, s0, s1, b) ==
  << <<"C06.A.prompt", ph = "finished" =>
         \A t \in Tasks(cfg):
            s1.ts[t] = "WORKING" /\ s1.rem[t] <= 0 => ~C01_EndGate(cfg, s1.ts, t)>>,
     <<"C06.A.idle-unplaced", ph = "allocated" /\ Working(opts, s1) /\ ~s1.crash => C06_IdleUnplaced(cfg, s1, b)>> >>

\* =========================== C07 ===========================================
C07_L(cfg, opts, lg) ==
  LET n == Len(lg.pcost)
  IN << <<"C07.L.worker", \A w \in Workers(cfg): Len(lg.wcost[w]) = Len(lg.ws[w]) /\
              \A k \in 1..Len(lg.wcost[w]):
                 lg.wcost[w][k] = IF lg.ws[w][k] = "WORKING" THEN cfg.workers[w].cost ELSE 0>>,
        <<"C07.L.facility", \A f \in Facs(cfg): Len(lg.fcost[f]) = Len(lg.fs[f]) /\
              \A k \in 1..Len(lg.fcost[f]):
                 lg.fcost[f][k] = IF lg.fs[f][k] = "WORKING" THEN cfg.facs[f].cost ELSE 0>>,
        <<"C07.L.absence", \A k \in 1..n: RowAbs(opts, lg, k) =>
              /\ lg.pcost[k] = 0
              /\ \A w \in Workers(cfg): k <= Len(lg.wcost[w]) => lg.wcost[w][k] = 0
              /\ \A f \in Facs(cfg): k <= Len(lg.fcost[f]) => lg.fcost[f][k] = 0>>,
        <<"C07.L.team", \A m \in Teams(cfg): Len(lg.mcost[m]) = n /\
              \A k \in 1..Len(lg.mcost[m]):
                 lg.mcost[m][k] = SumOver({ w \in Workers(cfg) : cfg.workers[w].team = m /\ k <= Len(lg.wcost[w]) },
                                          LAMBDA w: lg.wcost[w][k])>>,
        <<"C07.L.workplace", \A p \in Wps(cfg): Len(lg.pwcost[p]) = n /\
              \A k \in 1..Len(lg.pwcost[p]):
                 lg.pwcost[p][k] = SumOver({ f \in Facs(cfg) : cfg.facs[f].wp = p /\ k <= Len(lg.fcost[f]) },
                                           LAMBDA f: lg.fcost[f][k])>>,
        <<"C07.L.organization", Len(lg.ocost) = n /\ \A k \in 1..n:
                 lg.ocost[k] = SumOver({ m \in Teams(cfg) : k <= Len(lg.mcost[m]) }, LAMBDA m: lg.mcost[m][k])
                             + SumOver({ p \in Wps(cfg) : k <= Len(lg.pwcost[p]) }, LAMBDA p: lg.pwcost[p][k])>>,
        <<"C07.L.project", lg.pcost = lg.ocost>>,
        <<"C07.L.total", SeqSum(lg.pcost) =
              SumOver(Workers(cfg), LAMBDA w: cfg.workers[w].cost * Count(lg.ws[w], "WORKING"))
            + SumOver(Facs(cfg), LAMBDA f: cfg.facs[f].cost * Count(lg.fs[f], "WORKING"))>> >>
\* after the logs have been edited (remove/insert_absence_time_list) the absence indices are no
\* longer meaningful, everything else must still add up
C07_AfterEdit(cfg, opts, lg) ==
  SelectSeq(C07_L(cfg, opts, lg), LAMBDA c: c[1] # "C07.L.absence")
\* live: a resource is charged iff WORKING in the settled state of a working step
C07_Charge(cfg, opts, s) ==
  [w |-> [w \in Workers(cfg) |-> IF Working(opts, s) /\ s.ws[w] = "WORKING" THEN cfg.workers[w].cost ELSE 0],
   f |-> [f \in Facs(cfg) |-> IF Working(opts, s) /\ s.fs[f] = "WORKING" THEN cfg.facs[f].cost ELSE 0]]

\* =========================== C08 ===========================================
C08_AllLens(cfg, lg) ==
  {Len(lg.pcost), Len(lg.ocost)}
  \cup { Len(lg.mcost[m]) : m \in Teams(cfg) } \cup { Len(lg.pwcost[p]) : p \in Wps(cfg) }
  \cup UNION { {Len(lg.ts[t]), Len(lg.rem[t]), Len(lg.aw[t]), Len(lg.af[t])} : t \in Tasks(cfg) }
  \cup UNION { {Len(lg.ws[w]), Len(lg.wcost[w]), Len(lg.wt[w])} : w \in Workers(cfg) }
  \cup UNION { {Len(lg.fs[f]), Len(lg.fcost[f]), Len(lg.ft[f])} : f \in Facs(cfg) }
  \cup UNION { {Len(lg.cs[c]), Len(lg.cp[c])} : c \in Comps(cfg) }
  \cup { Len(lg.pc[p]) : p \in Wps(cfg) }
C08_L(cfg, opts, lg) ==
  << \* (project.time advances by unit_time per step)
     <<"C08.L.aligned", C08_AllLens(cfg, lg) = {lg.time \div Unit(opts)} /\ lg.time % Unit(opts) = 0>> >>

\* =========================== C10 ===========================================
C10_A(cfg, opts, ph, s0, s1, b) ==
  << <<"C10.A.no-start", ~Working(opts, s1) /\ ~opts.autoAbs /\ ph \in {"presence", "alloc_task", "allocated", "started", "cost", "performed", "recorded"} =>
          \A t \in Tasks(cfg): s1.ts[t] = s0.ts[t]>>,
     <<"C10.A.no-allocation", ph \in {"alloc_task", "allocated"} /\ ~Working(opts, s1) =>
          s1.aw = s0.aw /\ s1.af = s0.af /\ s1.wt = s0.wt /\ s1.ft = s0.ft>>,
     <<"C10.A.no-progress", ph = "performed" /\ ~Working(opts, s1) =>
          \A t \in Tasks(cfg):
             IF cfg.tasks[t].auto /\ opts.autoAbs /\ s0.ts[t] = "WORKING"
             THEN s1.rem[t] = s0.rem[t] - cfg.tasks[t].rate
             ELSE s1.rem[t] = s0.rem[t]>>,
     <<"C10.A.absent-resource", ph = "performed" /\ Working(opts, s1) =>
          \A t \in Tasks(cfg): ~cfg.tasks[t].auto /\ s0.ts[t] = "WORKING" =>
             s0.rem[t] - s1.rem[t] =
               IF cfg.tasks[t].needF
               THEN SumOver(1..Min2(Len(s0.aw[t]), Len(s0.af[t])),
                      LAMBDA i: IF AbsentW(cfg, opts, s0, s0.aw[t][i]) \/ AbsentF(cfg, opts, s0, s0.af[t][i])
                                THEN 0
                                ELSE Max2(Skill(cfg, s0.aw[t][i], t), 0) * Max2(FSkill(cfg, s0.af[t][i], t), 0))
               ELSE SumOver(DOMAIN s0.aw[t],
                      LAMBDA i: IF AbsentW(cfg, opts, s0, s0.aw[t][i]) THEN 0
                                ELSE Max2(Skill(cfg, s0.aw[t][i], t), 0))>> >>
C10_S(cfg, opts, ph, s) ==
  << <<"C10.S.all-absent", Settled(ph) /\ ~Working(opts, s) =>
          /\ \A w \in Workers(cfg): s.ws[w] = "ABSENCE"
          /\ \A f \in Facs(cfg): s.fs[f] = "ABSENCE">>,
     \* automatic tasks progress at absence steps exactly when the flag is set: with the flag an
     \* automatic task (not bound to a component) that is ready runs, without it nothing starts
     <<"C10.S.auto-runs", Settled(ph) /\ ~Working(opts, s) /\ opts.autoAbs =>
          \A t \in Tasks(cfg): cfg.tasks[t].auto /\ cfg.tasks[t].comp = 0 => s.ts[t] # "READY">> >>
C10_L(cfg, opts, lg) ==
  << <<"C10.L.absence-rows", \A k \in 1..Len(lg.pcost): RowAbs(opts, lg, k) =>
          /\ lg.pcost[k] = 0 /\ lg.ocost[k] = 0
          /\ \A w \in Workers(cfg): lg.ws[w][k] = "ABSENCE" /\ lg.wcost[w][k] = 0
          /\ \A f \in Facs(cfg): lg.fs[f][k] = "ABSENCE" /\ lg.fcost[f][k] = 0
          /\ \A t \in Tasks(cfg): lg.ts[t][k] # "WORKING"
          /\ \A t \in Tasks(cfg): k > 1 =>
                (lg.aw[t][k] = lg.aw[t][k - 1] \/ lg.ts[t][k] = "FINISHED") >>,
     <<"C10.L.own-absence", \A w \in Workers(cfg): \A k \in 1..Len(lg.ws[w]):
          RowAbsW(cfg, opts, w, k) => lg.ws[w][k] = "ABSENCE" /\ lg.wcost[w][k] = 0>>,
     <<"C10.L.own-absence-f", \A f \in Facs(cfg): \A k \in 1..Len(lg.fs[f]):
          RowAbsF(cfg, opts, f, k) => lg.fs[f][k] = "ABSENCE" /\ lg.fcost[f][k] = 0>> >>

\* =========================== C13 ===========================================
C13_TopPlaced(cfg, s, p) ==
  { c \in ToSet(s.pc[p]) : \A q \in ParentsOf(cfg, c): ~Mem(s.pc[p], q) }
C13_S(cfg, opts, ph, s) ==
  << <<"C13.S.single-place", \A c \in Comps(cfg):
          SumOver(Wps(cfg), LAMBDA p: Count(s.pc[p], c)) <= 1>>,
     <<"C13.S.twoway", \A c \in Comps(cfg): \A p \in Wps(cfg): Mem(s.pc[p], c) <=> s.cp[c] = p>>,
     <<"C13.S.capacity", \A p \in Wps(cfg):
          SumOver(C13_TopPlaced(cfg, s, p), LAMBDA c: cfg.comps[c].space) <= cfg.wps[p].cap>>,
     <<"C13.S.leaves", ph \in {"unplaced", "ready", "updated"} =>
          \A c \in Comps(cfg): IsTop(cfg, c) /\ TasksOf(cfg, c) # {}
                               /\ (\A t \in TasksOf(cfg, c): s.ts[t] = "FINISHED") =>
             s.cp[c] = 0>>,
     <<"C13.S.site", Settled(ph) =>
          \A t \in Tasks(cfg): cfg.tasks[t].needF =>
             \A i \in DOMAIN s.af[t]: cfg.facs[s.af[t][i]].wp = s.cp[cfg.tasks[t].comp]>> >>
C13_A(cfg, opts, ph, s0, s1, b) ==
  << <<"C13.A.where", ph \notin {"alloc_task", "allocated", "unplaced"} =>
          s1.cp = s0.cp /\ s1.pc = s0.pc>>,
     <<"C13.A.conveyor", ph = "alloc_task" =>
          \A c \in Comps(cfg): s1.cp[c] # s0.cp[c] /\ s1.cp[c] # 0 =>
             (Len(cfg.wps[s1.cp[c]].inputs) > 0 /\ s0.cp[c] # 0 => Mem(cfg.wps[s1.cp[c]].inputs, s0.cp[c]))>>,
     <<"C13.A.not-while-working", ph \in {"alloc_task", "allocated", "unplaced"} =>
          \A c \in Comps(cfg): s1.cp[c] # s0.cp[c] =>
             \A t \in TasksOf(cfg, c): s0.ts[t] # "WORKING">>,
     \* at most one move per step: placement after the allocation phase differs from the
     \* placement at its start by at most one hop per component (judged with alloc_task events)
     <<"C13.A.once", TRUE>> >>

\* the same on the per-step logs (entry k = state when step k-1 was recorded)
C13_L(cfg, opts, lg) ==
  LET n == Len(lg.pcost)
      top(p, k) == { c \in ToSet(lg.pc[p][k]) : \A q \in ParentsOf(cfg, c): ~Mem(lg.pc[p][k], q) }
  IN << <<"C13.L.single-place", \A c \in Comps(cfg): \A k \in 1..Len(lg.cp[c]):
             SumOver(Wps(cfg), LAMBDA p: Count(lg.pc[p][k], c)) <= 1>>,
        <<"C13.L.twoway", \A c \in Comps(cfg): \A p \in Wps(cfg): \A k \in 1..Len(lg.cp[c]):
             Mem(lg.pc[p][k], c) <=> lg.cp[c][k] = p>>,
        <<"C13.L.capacity", \A p \in Wps(cfg): \A k \in 1..Len(lg.pc[p]):
             SumOver(top(p, k), LAMBDA c: cfg.comps[c].space) <= cfg.wps[p].cap>>,
        <<"C13.L.conveyor", \A c \in Comps(cfg): \A k \in 1..(Len(lg.cp[c]) - 1):
             LET a == lg.cp[c][k]  b == lg.cp[c][k + 1]
             IN b # a /\ b # 0 /\ a # 0 /\ Len(cfg.wps[b].inputs) > 0 => Mem(cfg.wps[b].inputs, a)>>,
        <<"C13.L.not-while-working", \A c \in Comps(cfg): \A k \in 1..(Len(lg.cp[c]) - 1):
             lg.cp[c][k + 1] # lg.cp[c][k] =>
                \A t \in TasksOf(cfg, c): ~(lg.ts[t][k] = "WORKING" /\ lg.ts[t][k + 1] = "WORKING")>>,
        <<"C13.L.leaves", \A c \in Comps(cfg): IsTop(cfg, c) /\ TasksOf(cfg, c) # {} =>
             \A k \in 1..Len(lg.cp[c]):
                (\A t \in TasksOf(cfg, c): lg.ts[t][k] = "FINISHED") => lg.cp[c][k] = 0>>,
        <<"C13.L.site", \A t \in Tasks(cfg): cfg.tasks[t].needF =>
             \A k \in 1..Len(lg.af[t]): lg.af[t][k] # <<-1>> =>
                \A i \in DOMAIN lg.af[t][k]: cfg.facs[lg.af[t][k][i]].wp = lg.cp[cfg.tasks[t].comp][k]>> >>

\* =========================== C14 ===========================================
C14_S(cfg, opts, ph, s) ==
  IF ph \notin {"init", "finished", "unplaced", "ready", "updated", "returned", "presence",
                "started", "cost", "performed", "recorded"} THEN <<>>
  ELSE
  << <<"C14.S.finished", \A c \in Comps(cfg):
          (s.cs[c] = "FINISHED") <=> (\A t \in TasksOf(cfg, c): s.ts[t] = "FINISHED")>>,
     <<"C14.S.working", \A c \in Comps(cfg):
          (\E t \in TasksOf(cfg, c): s.ts[t] = "WORKING") => s.cs[c] = "WORKING">>,
     <<"C14.S.not-none", \A c \in Comps(cfg):
          (\E t \in TasksOf(cfg, c): s.ts[t] \in {"READY", "WORKING"}) => s.cs[c] # "NONE">> >>
C14_A(cfg, opts, ph, s0, s1, b) ==
  << <<"C14.A.no-return", \A c \in Comps(cfg):
          /\ (s0.cs[c] # "NONE" => s1.cs[c] # "NONE")
          /\ (s0.cs[c] = "FINISHED" => s1.cs[c] = "FINISHED")>> >>
C14_L(cfg, opts, lg) ==
  << <<"C14.L.finished", \A c \in Comps(cfg): \A k \in 1..Len(lg.cs[c]):
          (lg.cs[c][k] = "FINISHED") <=> (\A t \in TasksOf(cfg, c): lg.ts[t][k] = "FINISHED")>>,
     <<"C14.L.working", \A c \in Comps(cfg): \A k \in 1..Len(lg.cs[c]):
          (\E t \in TasksOf(cfg, c): lg.ts[t][k] = "WORKING") => lg.cs[c][k] = "WORKING">>,
     <<"C14.L.not-none", \A c \in Comps(cfg): \A k \in 1..Len(lg.cs[c]):
          (\E t \in TasksOf(cfg, c): lg.ts[t][k] \in {"READY", "WORKING"}) => lg.cs[c][k] # "NONE">>,
     <<"C14.L.no-return", \A c \in Comps(cfg): \A k \in 1..(Len(lg.cs[c]) - 1):
          /\ (lg.cs[c][k] # "NONE" => lg.cs[c][k + 1] # "NONE")
          /\ (lg.cs[c][k] = "FINISHED" => lg.cs[c][k + 1] = "FINISHED")>> >>

\* =========================== C11 ===========================================
\* (functions) run = [fn, mode, t, p, vals, inp, out, ret]
C11_Key(cfg, run) ==
  CASE run.fn = "worker"    -> WorkerKey(cfg, run.mode, run.t, run.p)
    [] run.fn = "facility"  -> FacilityKey(cfg, run.mode, run.t)
    [] run.fn = "task"      -> TaskKey(cfg, run.vals, run.mode)
    [] run.fn = "workplace" -> WorkplaceKey(cfg, run.mode, run.t, run.vals.avail)
C11_F(cfg, run) ==
  << <<"C11.F.accepts-" \o run.fn \o "-" \o run.mode, run.ret = "ok">>,
     <<"C11.F.permutation", run.ret = "ok" => IsPermutationOf(run.inp, run.out)>>,
     <<"C11.F.ordered-" \o run.fn \o "-" \o run.mode,
         run.ret = "ok" /\ IsPermutationOf(run.inp, run.out) => IsOrderedBy(run.out, C11_Key(cfg, run))>> >>
\* conformance: Python's sorted() is stable
C11_FConforms(cfg, run) == run.ret = "ok" /\ run.out = StableSortBy(run.inp, C11_Key(cfg, run))
\* (allocation) no inversion: a worker newly given to t2 was not eligible for a strictly
\* higher-priority open task that could still accept it
C11_A(cfg, opts, ph, s0, s1, b) ==
  IF ph # "allocated" \/ ~Working(opts, s1) THEN <<>>
  ELSE
  LET key == TaskKey(cfg, b, opts.rule)
  IN << <<"C11.A.no-inversion", \A t2 \in Tasks(cfg): \A w \in ToSet(C04_NewW(b, s1, t2)):
            \A t1 \in Tasks(cfg):
               ~( /\ key[t1] < key[t2]
                  /\ b.ts[t1] \in {"READY", "WORKING"}
                  /\ ~cfg.tasks[t1].auto /\ ~cfg.tasks[t1].needF
                  /\ EligibleW(cfg, w, t1)
                  /\ C06_CanAccept(cfg, s1, t1, w) )>>,
        \* ... nor for a higher-priority facility task (of a flat single-task component) for
        \* which a facility the worker can operate is still free after the whole phase
        <<"C11.A.no-inversion-pair", \A t2 \in Tasks(cfg): \A w \in ToSet(C04_NewW(b, s1, t2)):
            \A t1 \in Tasks(cfg):
               C06_PairTask(cfg, t1) /\ key[t1] < key[t2] /\ b.ts[t1] \in {"READY", "WORKING"} =>
                 LET p == s1.cp[cfg.tasks[t1].comp]
                 IN p # 0 =>
                    \A f \in Facs(cfg):
                       ~( /\ cfg.facs[f].wp = p /\ s1.fs[f] = "FREE" /\ s1.ft[f] = <<>>
                          /\ EligibleF(cfg, f, t1) /\ EligibleW(cfg, w, t1) /\ CanOperate(cfg, w, f)
                          /\ C06_CanAccept(cfg, s1, t1, w)
                          /\ \A i \in DOMAIN s1.af[t1]: ~cfg.facs[s1.af[t1][i]].solo
                          /\ (cfg.facs[f].solo => Len(s1.af[t1]) = 0) )>> >>

\* =========================== histories (C08 C09 C10 C15 C16 C17 C18) =========
\* run = record of one API operation: op, args, opts, ret, obs, final = [st, lg]; pre = the
\* snapshot before the operation; ref = the snapshot it has to agree with (args.cmp)
SameLogs(a, b) == [a.lg EXCEPT !.mode = "x", !.status = "x"] = [b.lg EXCEPT !.mode = "x", !.status = "x"]
SameResult(a, b) == a.lg = b.lg /\ a.st = b.st

C08_H(cfg, run) ==
  << <<"C08.H.aligned-after-" \o run.op, run.ret \in {"ok", "abort"} => AllTrue(C08_L(cfg, run.opts, run.final.lg))>> >>

\* logs of a backward run in forward time
ForwardLogs(run) == IF run.args.reverse THEN run.final.lg ELSE ReverseLogsF(run.final.lg)
\* in forward time no task is WORKING before all its FS predecessors have stopped being WORKING
C17_FsOrder(cfg, lg) ==
  \A d \in ToSet(cfg.deps): d[3] = "FS" =>
     \A k \in 1..Len(lg.ts[d[2]]):
        lg.ts[d[2]][k] = "WORKING" => \A j \in k..Len(lg.ts[d[1]]): lg.ts[d[1]][j] # "WORKING"
C17_H(cfg, run) ==
  LET o == run.obs
  IN << <<"C17.H.structure", o.struct_after.tin = o.struct_before.tin /\ o.struct_after.tout = o.struct_before.tout
                              /\ o.struct_after.pin = o.struct_before.pin /\ o.struct_after.pout = o.struct_before.pout>>,
        <<"C17.H.same-lists", o.same_lists>>,
        <<"C17.H.no-helper", o.struct_after.ntasks = Len(cfg.tasks) /\ o.struct_after.tasklist = [i \in 1..Len(cfg.tasks) |-> i]>>,
        <<"C17.H.ends", run.ret \in {"ok", "abort"}>>,
        <<"C17.L.aligned", run.ret = "ok" => AllTrue(C08_L(cfg, run.opts, run.final.lg))>>,
        <<"C17.L.fs-order", run.ret = "ok" /\ run.final.lg.status = "SUCCESS" =>
              C17_FsOrder(cfg, ForwardLogs(run))>> >>

C18_NoWorkRow(cfg, lg, s) ==
  LET k == s + 1
  IN /\ lg.pcost[k] = 0 /\ lg.ocost[k] = 0
     /\ \A m \in Teams(cfg): lg.mcost[m][k] = 0
     /\ \A p \in Wps(cfg): lg.pwcost[p][k] = 0
     /\ \A w \in Workers(cfg): lg.wcost[w][k] = 0 /\ lg.ws[w][k] # "WORKING"
     /\ \A f \in Facs(cfg): lg.fcost[f][k] = 0 /\ lg.fs[f][k] # "WORKING"
     /\ \A t \in Tasks(cfg): lg.ts[t][k] # "WORKING"
                             /\ lg.rem[t][k] = (IF k > 1 THEN lg.rem[t][k - 1] ELSE InitRem(cfg, t))
C18_H(cfg, run, pre) ==
  LET lg == run.final.lg
      aligned == C08_AllLens(cfg, lg) = {lg.time}
  IN << <<"C18.H.returns-" \o run.op, run.ret = "ok">>,
        <<"C18.H.aligned-" \o run.op, run.ret = "ok" => aligned>>,
        <<"C18.H.no-work-rows", run.op = "insert_absence" /\ run.ret = "ok" /\ aligned =>
              \A s \in ToSet(run.args.L): ~Mem(pre.lg.absL, s) /\ s < lg.time => C18_NoWorkRow(cfg, lg, s)>>,
        <<"C18.H.grows", run.op = "insert_absence" /\ run.ret = "ok" /\ aligned =>
              lg.time >= pre.lg.time /\ lg.time <= pre.lg.time + Len(run.args.L)>>,
        <<"C18.H.shrinks", run.op = "remove_absence" /\ run.ret = "ok" /\ aligned =>
              \* one entry fewer per listed absence step that lies inside the logs when its turn comes
              lg.time = Len(PopAll([i \in 1..pre.lg.time |-> i], SortSeq(pre.lg.absL, LAMBDA a, b: a > b)))>> >>

C16_H(cfg, run, pre) ==
  << <<"C16.H.write-ok", run.obs.write_ok>>,
     <<"C16.H.read-ok", run.obs.write_ok => run.obs.read_ok>>,
     <<"C16.H.json-fixpoint", run.obs.read_ok => run.obs.fixpoint>>,
     <<"C16.H.xrefs", run.obs.read_ok => run.obs.xref_ok>>,
     <<"C16.H.state-restored", run.obs.read_ok => run.final.st = pre.st>>,
     <<"C16.H.logs-restored", run.obs.read_ok => run.final.lg = pre.lg>>,
     \* the static model parameters (everything the specification's cfg carries)
     <<"C16.H.params-tasks", run.obs.read_ok => run.obs.params_after.tasks = run.obs.params_before.tasks>>,
     <<"C16.H.params-workers", run.obs.read_ok => run.obs.params_after.workers = run.obs.params_before.workers>>,
     <<"C16.H.params-facilities", run.obs.read_ok => run.obs.params_after.facs = run.obs.params_before.facs>>,
     <<"C16.H.params-workplaces", run.obs.read_ok => run.obs.params_after.wps = run.obs.params_before.wps>>,
     <<"C16.H.params-components", run.obs.read_ok => run.obs.params_after.comps = run.obs.params_before.comps>>,
     <<"C16.H.params-teams", run.obs.read_ok => run.obs.params_after.teams = run.obs.params_before.teams>>,
     <<"C16.H.params-project", run.obs.read_ok => run.obs.params_after.project = run.obs.params_before.project>> >>

\* =========================== C19 ===========================================
\* run = [fn, cls, log | logs, m2, unit, times, state, out...]
C19_States(cls) == IF cls \in {"task", "component"} THEN <<"READY", "WORKING">> ELSE <<"FREE", "WORKING", "ABSENCE">>
C19_F(run) ==
  CASE run.fn = "gantt" ->
         << <<"C19.F.returns-gantt-" \o run.cls, run.ret = "ok">>,
            <<"C19.F.gantt-" \o run.cls, run.ret = "ok" =>
                 /\ Len(run.out) = Len(C19_States(run.cls))
                 /\ \A i \in DOMAIN run.out: run.out[i] = Intervals(run.log, C19_States(run.cls)[i], run.m2)>> >>
    [] run.fn = "rows" ->
         << <<"C19.F.returns-rows-" \o run.cls, run.ret = "ok">>,
            <<"C19.F.rows-" \o run.cls, run.ret = "ok" =>
                 \A i \in DOMAIN C19_States(run.cls):
                    LET s == C19_States(run.cls)[i]
                        shown == s # (IF run.cls \in {"task", "component"} THEN "READY" ELSE "FREE") \/ run.viewReady
                        got == SelectSeq(run.out, LAMBDA r: r[1] = s)
                    IN got = (IF shown THEN [n \in DOMAIN Rows(run.log, s, run.m2, run.unit) |->
                                                    <<s, Rows(run.log, s, run.m2, run.unit)[n][1],
                                                      Rows(run.log, s, run.m2, run.unit)[n][2]>>]
                              ELSE <<>>)>> >>
    [] run.fn = "extract" ->
         << <<"C19.F.returns-extract-" \o run.cls, run.ret = "ok">>,
            <<"C19.F.extract-" \o run.cls, run.ret = "ok" =>
                 ToSet(run.out) = Extract(run.logs, run.state, run.times) /\ Len(run.out) = Cardinality(ToSet(run.out))>> >>
    [] run.fn = "lastdate" ->
         << <<"C19.F.lastdate", run.ret = "ok" /\ run.out + (run.time - 1) * run.unit = run.last>> >>

\* =========================== C20 ===========================================
\* run "subconfig": obs = [warned, unchanged, D, unitS, childTime, childStatus, childAbs, su, pu]
C20_Config(run) ==
  LET o == run.obs
      within == Cardinality({ a \in ToSet(o.childAbs) : a < o.childTime })
  IN << <<"C20.H.returns", run.ret = "ok">>,
        <<"C20.H.duration", run.ret = "ok" /\ o.childStatus = "SUCCESS" =>
             /\ ~o.unchanged
             /\ o.D = (IF run.args.flag THEN o.childTime - within ELSE o.childTime)
             /\ o.unitS = o.su>>,
        <<"C20.H.refused", run.ret = "ok" /\ o.childStatus # "SUCCESS" => o.warned /\ o.unchanged>> >>
\* the parent run: lg = final logs, t = the sub-project task, n = ceil(D * su / pu)
C20_Parent(cfg, opts, lg, t, n) ==
  LET W == { k \in 1..Len(lg.ts[t]) : lg.ts[t][k] = "WORKING" }
      shownReadyInAbsence == { k \in 1..Len(lg.ts[t]) : lg.ts[t][k] = "READY" /\ RowAbs(opts, lg, k) }
  IN << <<"C20.L.length", lg.status = "SUCCESS" => Cardinality(W) = n>>,
        <<"C20.L.consecutive", W # {} =>
             \A k \in Min(W)..Max(W): k \in W \/ k \in shownReadyInAbsence>>,
        <<"C20.L.no-workers", \A k \in 1..Len(lg.aw[t]): lg.aw[t][k] = <<>> >>,
        \* starts as soon as its dependencies allow: never shown READY at a working step
        <<"C20.L.prompt", cfg.tasks[t].comp = 0 =>
             \A k \in 1..Len(lg.ts[t]): lg.ts[t][k] = "READY" => RowAbs(opts, lg, k)>> >>

\* =========================== C12 ===========================================
C12_S(cfg, opts, ph, s) ==
  IF ph \notin {"updated"} \/ ~FSOnly(cfg) THEN <<>>
  ELSE
  << <<"C12.S.est", \A t \in Tasks(cfg): s.est[t] = CpmEst(cfg, s.rem, s.time, t)>>,
     <<"C12.S.eft", \A t \in Tasks(cfg): s.eft[t] = CpmEft(cfg, s.rem, s.time, t)>>,
     <<"C12.S.cpl", s.cpl = CpmCpl(cfg, s.rem, s.time)>>,
     <<"C12.S.lft", \A t \in Tasks(cfg): s.lft[t] = CpmLft(cfg, s.rem, s.time, t)>>,
     <<"C12.S.lst", \A t \in Tasks(cfg): s.lst[t] = CpmLst(cfg, s.rem, s.time, t)>>,
     <<"C12.S.slack", \A t \in Tasks(cfg): s.lst[t] >= s.est[t]>>,
     <<"C12.S.critical", \E t \in Tasks(cfg): s.lst[t] = s.est[t]>> >>
=============================================================================
