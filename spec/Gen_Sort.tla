---------------------------- MODULE Gen_Sort ----------------------------
(* Exports the inputs of the sorting functions (SortFamily) as ndjson for the harness. *)
EXTENDS PdesyFamilies, Json, IOUtils, TLC
CONSTANTS FAMILY, TIER
ASSUME ndJsonSerialize(IOEnv.OUT_FILE, SetToSeq(SortFamily(TIER)))
VARIABLE x
Init == x = 0
Next == FALSE /\ x' = x
=============================================================================
