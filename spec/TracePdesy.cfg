SPECIFICATION TraceSpec
INVARIANT Judge
CHECK_DEADLOCK FALSE
